#!/bin/bash
# usage: tools_reseed.sh [name...]  — re-applies each stored seeded change to /repo's current
# tree, checks that the suite still passes with it, runs the property's check (quick tier)
# and reverts. Prints caught/missed per change.
export GOFLAGS=-mod=mod GOPROXY=off GOSUMDB=off GOTOOLCHAIN=local
cd /verif
names="$@"; [ -z "$names" ] && names=$(ls seeded)
for name in $names; do
  d=/verif/seeded/$name
  pf=$d/patch.diff; [ -f $d/patch.current.diff ] && pf=$d/patch.current.diff   # same change, rebased onto later fixes
  prop=$(python3 -c "import json;print(json.load(open('$d/meta.json'))['property'])" 2>/dev/null || echo ${name:0:3})
  if [ -f $d/NEUTRALISED.txt ]; then echo "$name: neutralised by a later fix (see NEUTRALISED.txt) - skipped"; continue; fi
  if [ -n "$(git -C /repo status --short | grep -v '^??')" ]; then echo "/repo not clean"; exit 2; fi
  if ! git -C /repo apply $pf 2>/dev/null; then
    # context moved by later fixes: three-way merge against the blobs the patch names
    if ! git -C /repo apply --3way $pf 2>/dev/null; then
      echo "$name: patch does not apply to the current tree"; git -C /repo reset -q --hard HEAD; continue
    fi
    git -C /repo reset -q
  fi
  suite=$(cd /repo && go build ./... 2>&1 && go test -vet=off -count=1 ./... 2>&1 | grep -v "no test files" | grep -c "^ok")
  o=$(VERIF_WORKER_TIMEOUT=600 ./bin/check $prop 2>&1 | grep -v "^KNOWN" | grep "VIOLATION\|INCONCLUSIVE" | head -2 | cut -c1-200)
  git -C /repo checkout -- .
  if echo "$o" | grep -q VIOLATION; then r=caught; else r=MISSED; fi
  echo "$name: suite_ok_pkgs=$suite $prop $r $(echo $o | head -c 160)"
done
