#!/usr/bin/env python3
"""Regenerates MANIFEST.json from the check metadata (bin/check --meta) and validates it."""
import json, subprocess, sys
meta = json.loads(subprocess.check_output(["/verif/bin/check", "--meta"]))
props = [json.loads(l) for l in open("/verif/properties.jsonl")]
ids = [p["id"] for p in props]
hooks = subprocess.check_output(["git", "-C", "/repo", "log", "--format=%H %s"]).decode().splitlines()
hook_commits = [l.split()[0] for l in hooks if l.split(" ", 1)[1].startswith(("hooks:", "verif hook:"))]
env = "GOFLAGS=-mod=mod GOPROXY=off GOSUMDB=off GOTOOLCHAIN=local"
m = {
 "version": 1,
 "setup_cmd": "cd /verif && %s go build -o bin/check ./cmd/check && bin/check --warm" % env,
 "hooks": {
  "guard": "verif",
  "enable": "go build -tags verif (done by bin/check for every run, from /repo's working tree through the replace directive in /verif/go.mod)",
  "baseline_off_cmd": "cd /repo && %s go test -json -vet=off -count=1 -timeout 25m ./..." % env,
  "source_commits": list(reversed(hook_commits)),
  "add_only": True,
 },
 "engines": [
  {"name": "vgate", "path": "/verif/cmd/vgate", "serves_properties": sorted(meta.keys()),
   "kind_free_text": "worker: real gateway (built from /repo with -tags verif, optionally -race) driven by a scripted messaging bus, WebSocket/HTTP clients, reference service and reference client; monitors over boundary logs and hooked state"},
  {"name": "check", "path": "/verif/cmd/check", "serves_properties": sorted(meta.keys()),
   "kind_free_text": "orchestrator: rebuilds the worker, runs worker processes in parallel, merges reports, parses race-detector logs, applies known_findings.jsonl, writes evidence"},
 ],
 "checks": [],
 "not_applicable": [],
 "notes": "Technique family: runtime monitoring and sanitizers. See DESIGN.md. Exit codes of a check: 0 held on everything explored (known findings are printed as KNOWN-FINDING lines), 1 violation (VIOLATION line with replay file), 2 inconclusive (INCONCLUSIVE line; never folded into pass or violation).",
}
for pid in ids:
    if pid in meta:
        p = meta[pid]
        m["checks"].append({
         "property_id": pid,
         "quick_cmd": "cd /verif && bin/check %s --tier quick" % pid,
         "thorough_cmd": "cd /verif && bin/check %s --tier thorough" % pid,
         "evidence_file": "/verif/evidence/%s.json" % pid,
         "replay_cmd_template": "cd /verif && bin/check %s --replay {path}" % pid,
         "engine": "vgate",
         "level_claimed": {"category": p["Level"], "text": p["LevelText"], "design_ref": p["DesignRef"]},
         "level_note": p["LevelNote"],
         "technique": p["Technique"],
        })
    else:
        m["not_applicable"].append({"property_id": pid, "reason": "check not built yet in this session (no claim made); runtime monitoring applies to it, see DESIGN.md"})
json.dump(m, open("/verif/MANIFEST.json", "w"), indent=1)
try:
    import jsonschema
    jsonschema.validate(m, json.load(open("/root/.vp/MANIFEST.schema.json")))
    print("MANIFEST valid:", len(m["checks"]), "checks,", len(m["not_applicable"]), "not applicable")
except ImportError:
    print("jsonschema not available; not validated")
