package main

import (
	"encoding/json"
	"fmt"
	"os"
	"strings"
	"time"

	"verif/internal/vg"
)

var debugCmds = map[string]func([]string){}

func main() {
	if len(os.Args) < 2 {
		fmt.Fprintln(os.Stderr, "usage: vgate <cmd> ...")
		os.Exit(2)
	}
	switch os.Args[1] {
	case "smoke":
		smoke()
	default:
		if f, ok := debugCmds[os.Args[1]]; ok {
			f(os.Args[2:])
			return
		}
		os.Exit(vg.RunWorker(os.Args[1:]))
	}
}

func smoke() {
	t0 := time.Now()
	n := 200
	for i := 0; i < n; i++ {
		g, err := vg.NewGate(vg.GateOpts{Seed: uint64(i), Pct: 20})
		if err != nil {
			panic(err)
		}
		w := vg.NewWorld(g.Bus)
		w.AddModel("t.a", map[string]vg.Val{"x": vg.P(1), "r": vg.Ref("t.b")})
		w.AddModel("t.b", map[string]vg.Val{"y": vg.P("s")})
		c, _, err := g.Connect("1.2.3", nil)
		if err != nil {
			panic(err)
		}
		c.Request("subscribe.t.a", nil, "")
		for {
			if err := g.Quiesce(vg.QOpts{AllowOutstanding: true}); err != nil {
				panic(err)
			}
			out := g.Bus.Outstanding()
			if len(out) == 0 {
				break
			}
			r := out[0]
			switch r.Kind {
			case "access":
				g.Bus.Reply(r, []byte(`{"result":{"get":true,"call":"*"}}`), nil)
			case "get":
				g.Bus.Reply(r, nil, func() []byte { return w.GetResponse(r.Name) })
			}
		}
		v := vg.P(2)
		w.Change("t.a", map[string]*vg.Val{"x": &v})
		w.Custom("t.b", "hello")
		if err := g.Quiesce(vg.QOpts{}); err != nil {
			panic(err)
		}
		if i == 0 {
			for _, f := range c.Frames() {
				fmt.Printf("%d %s\n", f.T, f.Raw)
			}
			for _, e := range g.Bus.Log() {
				fmt.Printf("%d %s %s %s\n", e.T, e.Kind, e.Subject, e.Payload)
			}
		}
		c.Close()
		if err := g.Quiesce(vg.QOpts{}); err != nil {
			panic(err)
		}
		if i == 0 {
			fmt.Println("subs after close:", g.Bus.ActiveSubs(), "conns", g.Svc.VerifConnCount())
		}
		g.Stop()
	}
	fmt.Printf("%d scenarios in %v\n", n, time.Since(t0))
}

func init() {
	debugCmds["hist"] = func(args []string) {
		n, seed := 100, uint64(1)
		mode := "seq"
		if len(args) > 0 {
			fmt.Sscan(args[0], &n)
		}
		if len(args) > 1 {
			fmt.Sscan(args[1], &seed)
		}
		if len(args) > 2 {
			mode = args[2]
		}
		t0 := time.Now()
		sigs := map[uint64]bool{}
		nv := 0
		shown := 0
		bySig := map[string]int{}
		for i := 0; i < n; i++ {
			cfg := vg.HistCfg{Seed: seed*1000003 + uint64(i), Conns: 2, Versions: []string{"1.2.3", "", "1.2.0"}, NRes: 5, PColl: 35, PErr: 8, PRef: 30,
				Steps: 30, Mode: mode, Burst: 6, Pct: 25, AvoidF: true}
			res := vg.RunHistory(cfg)
			sigs[res.Sig] = true
			if res.Inconclusive != "" {
				fmt.Println("INCONCLUSIVE", cfg.Seed, res.Inconclusive)
			}
			for _, v := range res.Viol {
				bySig[v.Prop+"/"+v.Sig]++
			}
			match := len(res.Viol) > 0
			if flt := os.Getenv("VG_FILTER"); flt != "" {
				match = false
				for _, v := range res.Viol {
					if strings.Contains(v.Prop+"/"+v.Sig+"$", flt) {
						match = true
					}
				}
			}
			if len(res.Viol) > 0 {
				nv++
			}
			if match {
				shown++
				if shown <= 2 {
					fmt.Printf("--- seed %d\n", cfg.Seed)
					for _, s := range res.Steps {
						fmt.Println("  ", s)
					}
					for _, v := range res.Viol {
						fmt.Println("  VIOL", v)
					}
				}
			}
		}
		fmt.Printf("%d histories, %d with violations, %d distinct sigs, %v\n", n, nv, len(sigs), time.Since(t0))
		fmt.Println(bySig)
	}
}

func init() {
	debugCmds["hist1"] = func(args []string) {
		var seed uint64
		mode := "seq"
		fmt.Sscan(args[0], &seed)
		if len(args) > 1 {
			mode = args[1]
		}
		cfg := vg.HistCfg{Seed: seed, Conns: 2, Versions: []string{"1.2.3", "", "1.2.0"}, NRes: 5, PColl: 35, PErr: 8, PRef: 30,
			Steps: 30, Mode: mode, Burst: 6, Pct: 25, AvoidF: true, Trace: true}
		reps := 1
		if len(args) > 2 {
			fmt.Sscan(args[2], &reps)
		}
		var res *vg.HistResult
		for i := 0; i < reps; i++ {
			res = vg.RunHistory(cfg)
			match := false
			for _, v := range res.Viol {
				if strings.Contains(v.Prop+"/"+v.Sig+"$", os.Getenv("VG_FILTER")) {
					match = true
				}
			}
			if match {
				fmt.Println("reproduced at rep", i)
				break
			}
		}
		for _, s := range res.Steps {
			fmt.Println("  ", s)
		}
		for _, s := range res.BusLog {
			fmt.Println("  BUS", s)
		}
		for c, fs := range res.Frames {
			for _, f := range fs {
				fmt.Println("  FRAME", c, f)
			}
		}
		for _, s := range res.ErrLog {
			fmt.Println("  ERRLOG", s)
		}
		for _, v := range res.Viol {
			fmt.Println("  VIOL", v)
		}
		fmt.Println(res.Inconclusive)
	}
}

func init() {
	debugCmds["c13one"] = func(args []string) {
		rep := vg.DebugC13(args[0])
		for _, v := range rep.Violations {
			fmt.Println("VIOL", v.Prop, v.Sig, v.Msg)
		}
		fmt.Println("stats", rep.Stats, "inconclusive", rep.Inconclusive)
	}
}

func init() {
	debugCmds["directed"] = func(args []string) {
		for _, d := range vg.DirectedScenarios {
			if len(args) > 0 && args[0] != d.Name {
				continue
			}
			res := d.Run(1)
			fmt.Println("==", d.Name, d.Prop, "viol:", len(res.Viol), res.Inconclusive)
			for _, s := range res.Steps {
				fmt.Println("  ", s)
			}
			for c, fs := range res.Frames {
				for _, f := range fs {
					fmt.Println("  FRAME", c, f)
				}
			}
			for _, v := range res.Viol {
				fmt.Println("  VIOL", v)
			}
		}
	}
}

func init() {
	debugCmds["bisect"] = func(args []string) {
		b, _ := os.ReadFile(args[0])
		var w struct {
			Witness struct {
				Cfg vg.HistCfg `json:"cfg"`
			} `json:"witness"`
		}
		json.Unmarshal(b, &w)
		cfg := w.Witness.Cfg
		max := cfg.Steps
		for n := 0; n <= max; n++ {
			cfg.Steps = n
			res := vg.RunHistory(cfg)
			var sigs []string
			for _, v := range res.Viol {
				sigs = append(sigs, v.Prop+"/"+v.Sig)
			}
			last := ""
			if len(res.Steps) > 1 {
				last = res.Steps[len(res.Steps)-2]
			}
			fmt.Println(n, sigs, "|", last)
		}
	}
}

func init() {
	debugCmds["runcfg"] = func(args []string) {
		b, _ := os.ReadFile(args[0])
		var w struct {
			Witness struct {
				Cfg vg.HistCfg `json:"cfg"`
			} `json:"witness"`
		}
		json.Unmarshal(b, &w)
		cfg := w.Witness.Cfg
		if len(args) > 1 {
			fmt.Sscan(args[1], &cfg.Steps)
		}
		cfg.Trace = true
		res := vg.RunHistory(cfg)
		for _, s := range res.Steps {
			fmt.Println("  ", s)
		}
		for _, s := range res.BusLog {
			fmt.Println("  BUS", s)
		}
		for c, fs := range res.Frames {
			for _, f := range fs {
				fmt.Println("  FRAME", c, f)
			}
		}
		for _, s := range res.ErrLog {
			fmt.Println("  ERRLOG", s)
		}
		for _, n := range res.Notes {
			fmt.Println("  NOTE", n.Site, n.Detail)
		}
		for _, v := range res.Viol {
			fmt.Println("  VIOL", v)
		}
	}
}
