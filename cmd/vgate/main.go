package main

import (
	"fmt"
	"os"
	"time"

	"verif/internal/vg"
)

func main() {
	if len(os.Args) < 2 {
		fmt.Fprintln(os.Stderr, "usage: vgate <cmd> ...")
		os.Exit(2)
	}
	switch os.Args[1] {
	case "smoke":
		smoke()
	default:
		os.Exit(vg.RunWorker(os.Args[1:]))
	}
}

func smoke() {
	t0 := time.Now()
	n := 200
	for i := 0; i < n; i++ {
		g, err := vg.NewGate(vg.GateOpts{Seed: uint64(i), Pct: 20})
		if err != nil {
			panic(err)
		}
		w := vg.NewWorld(g.Bus)
		w.AddModel("t.a", map[string]vg.Val{"x": vg.P(1), "r": vg.Ref("t.b")})
		w.AddModel("t.b", map[string]vg.Val{"y": vg.P("s")})
		c, _, err := g.Connect("1.2.3", nil)
		if err != nil {
			panic(err)
		}
		c.Request("subscribe.t.a", nil, "")
		for {
			if err := g.Quiesce(vg.QOpts{AllowOutstanding: true}); err != nil {
				panic(err)
			}
			out := g.Bus.Outstanding()
			if len(out) == 0 {
				break
			}
			r := out[0]
			switch r.Kind {
			case "access":
				g.Bus.Reply(r, []byte(`{"result":{"get":true,"call":"*"}}`), nil)
			case "get":
				g.Bus.Reply(r, nil, func() []byte { return w.GetResponse(r.Name) })
			}
		}
		v := vg.P(2)
		w.Change("t.a", map[string]*vg.Val{"x": &v})
		w.Custom("t.b", "hello")
		if err := g.Quiesce(vg.QOpts{}); err != nil {
			panic(err)
		}
		if i == 0 {
			for _, f := range c.Frames() {
				fmt.Printf("%d %s\n", f.T, f.Raw)
			}
			for _, e := range g.Bus.Log() {
				fmt.Printf("%d %s %s %s\n", e.T, e.Kind, e.Subject, e.Payload)
			}
		}
		c.Close()
		if err := g.Quiesce(vg.QOpts{}); err != nil {
			panic(err)
		}
		if i == 0 {
			fmt.Println("subs after close:", g.Bus.ActiveSubs(), "conns", g.Svc.VerifConnCount())
		}
		g.Stop()
	}
	fmt.Printf("%d scenarios in %v\n", n, time.Since(t0))
}
