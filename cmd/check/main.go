// Command check is the single entry point registered in MANIFEST.json. It
// rebuilds the worker from /repo's current working tree with the hooks
// enabled, runs worker processes in parallel, merges their reports, applies
// known_findings.jsonl and writes evidence/<id>.json.
package main

import (
	"bufio"
	"bytes"
	"encoding/json"
	"fmt"
	"os"
	"os/exec"
	"path/filepath"
	"regexp"
	"sort"
	"strconv"
	"strings"
	"sync"
	"syscall"
	"time"

	"verif/internal/meta"
)

const root = "/verif"

type vreport struct {
	Prop    string          `json:"prop"`
	Sig     string          `json:"sig"`
	RID     string          `json:"rid,omitempty"`
	Msg     string          `json:"msg"`
	Witness json.RawMessage `json:"witness,omitempty"`
}

type report struct {
	Property     string            `json:"property"`
	Shard        int               `json:"shard"`
	Race         bool              `json:"race"`
	Evaluations  int64             `json:"evaluations"`
	Distinct     []uint64          `json:"distinct"`
	DistinctN    int64             `json:"distinct_n"`
	Exhaustive   bool              `json:"exhaustive"`
	Samples      []json.RawMessage `json:"samples"`
	Violations   []vreport         `json:"violations"`
	OtherProps   map[string]int64  `json:"other_props"`
	Inconclusive []string          `json:"inconclusive"`
	Counters     map[string]uint64 `json:"counters"`
	Stats        map[string]int64  `json:"stats"`
	Interleave   []uint64          `json:"interleave"`
	Notes        []string          `json:"notes"`
	WallS        float64           `json:"wall_s"`
	Done         bool              `json:"done"`
}

type finding struct {
	Kind      string `json:"kind"` // known | fixed
	Property  string `json:"property"`
	Sig       string `json:"sig,omitempty"`
	SigPrefix string `json:"sig_prefix,omitempty"`
	Commit    string `json:"commit,omitempty"`
	What      string `json:"what"`
}

func goEnv() []string {
	env := os.Environ()
	env = append(env, "GOFLAGS=-mod=mod", "GOPROXY=off", "GOSUMDB=off", "GOTOOLCHAIN=local", "CGO_ENABLED=1")
	return env
}

func build(out string, race bool) error {
	args := []string{"build", "-tags", "verif"}
	if race {
		args = append(args, "-race")
	}
	args = append(args, "-o", out, "./cmd/vgate")
	cmd := exec.Command("go", args...)
	cmd.Dir = root
	cmd.Env = goEnv()
	var buf bytes.Buffer
	cmd.Stdout = &buf
	cmd.Stderr = &buf
	if err := cmd.Run(); err != nil {
		return fmt.Errorf("go %s: %v\n%s", strings.Join(args, " "), err, buf.String())
	}
	return nil
}

func loadFindings() []finding {
	var out []finding
	f, err := os.Open(filepath.Join(root, "known_findings.jsonl"))
	if err != nil {
		return nil
	}
	defer f.Close()
	sc := bufio.NewScanner(f)
	sc.Buffer(make([]byte, 1<<20), 1<<20)
	for sc.Scan() {
		line := strings.TrimSpace(sc.Text())
		if line == "" || strings.HasPrefix(line, "#") {
			continue
		}
		var fd finding
		if json.Unmarshal([]byte(line), &fd) == nil {
			out = append(out, fd)
		}
	}
	return out
}

func matchFinding(fs []finding, v vreport) *finding {
	for i := range fs {
		f := &fs[i]
		if f.Kind != "known" || f.Property != v.Prop {
			continue
		}
		if f.Sig != "" && f.Sig == v.Sig {
			return f
		}
		if f.SigPrefix != "" && strings.HasPrefix(v.Sig, f.SigPrefix) {
			return f
		}
	}
	return nil
}

type shardResult struct {
	rep     *report
	crashed bool
	timeout bool
	stderr  string
	wal     string
	idx     int
	race    bool
}

func runShard(bin, prop, tier string, seed uint64, idx, n int, race bool, work string, timeout time.Duration) shardResult {
	tag := "p"
	if race {
		tag = "r"
	}
	out := filepath.Join(work, fmt.Sprintf("rep-%s%d.json", tag, idx))
	errf := filepath.Join(work, fmt.Sprintf("err-%s%d.txt", tag, idx))
	os.Remove(out)
	os.Remove(out + ".wal")
	args := []string{"run", prop, "--tier", tier, "--seed", strconv.FormatUint(seed, 10), "--shard", fmt.Sprintf("%d/%d", idx, n), "--out", out}
	if race {
		args = append(args, "--race")
	}
	cmd := exec.Command(bin, args...)
	cmd.Dir = root
	cmd.Env = append(os.Environ(), "GORACE=halt_on_error=0 exitcode=0 log_path="+filepath.Join(work, fmt.Sprintf("race-%d", idx)), "GOTRACEBACK=all")
	ef, _ := os.Create(errf)
	cmd.Stdout = ef
	cmd.Stderr = ef
	res := shardResult{idx: idx, race: race}
	if err := cmd.Start(); err != nil {
		res.crashed = true
		res.stderr = err.Error()
		return res
	}
	done := make(chan error, 1)
	go func() { done <- cmd.Wait() }()
	var err error
	select {
	case err = <-done:
	case <-time.After(timeout):
		cmd.Process.Signal(syscall.SIGQUIT)
		select {
		case <-done:
		case <-time.After(10 * time.Second):
			cmd.Process.Kill()
			<-done
		}
		res.timeout = true
	}
	ef.Close()
	if b, e := os.ReadFile(out); e == nil {
		var r report
		if json.Unmarshal(b, &r) == nil {
			res.rep = &r
		}
	}
	if err != nil || res.timeout || res.rep == nil || !res.rep.Done {
		if !res.timeout {
			res.crashed = true
		}
		if b, e := os.ReadFile(errf); e == nil {
			s := string(b)
			if len(s) > 6000 {
				s = s[:3000] + "\n...\n" + s[len(s)-3000:]
			}
			res.stderr = s
		}
		if b, e := os.ReadFile(out + ".wal"); e == nil {
			res.wal = string(b)
		}
	}
	return res
}

var raceFuncRe = regexp.MustCompile(`^\s+((?:github\.com/resgateio/resgate|verif)[^\s(]*(?:\([^)]*\))?[^\s(]*)\(`)

// parseRaceLogs reads the race detector logs of a run and returns report
// blocks reduced to the resgate functions on the two accessing stacks.
func parseRaceLogs(work string) (blocks [][]string) {
	files, _ := filepath.Glob(filepath.Join(work, "race-*"))
	for _, f := range files {
		b, err := os.ReadFile(f)
		if err != nil {
			continue
		}
		for _, blk := range strings.Split(string(b), "WARNING: DATA RACE")[1:] {
			// only the two access stacks (before "Goroutine ... created at")
			var funcs []string
			lines := strings.Split(blk, "\n")
			inAccess := false
			for _, l := range lines {
				if strings.HasPrefix(l, "Goroutine ") {
					break
				}
				if strings.HasPrefix(l, "Read at") || strings.HasPrefix(l, "Write at") || strings.HasPrefix(l, "Previous ") {
					inAccess = true
					continue
				}
				if !inAccess {
					continue
				}
				t := strings.TrimSpace(l)
				if i := strings.IndexByte(t, '('); i > 0 && !strings.HasPrefix(t, "/") {
					fn := t[:strings.LastIndexByte(t, '(')]
					if strings.Contains(fn, "resgateio/resgate") {
						fn = strings.TrimPrefix(fn, "github.com/resgateio/resgate/")
						funcs = append(funcs, fn)
					}
				}
			}
			blocks = append(blocks, funcs)
		}
	}
	return
}

func main() {
	args := os.Args[1:]
	if len(args) == 0 {
		fmt.Fprintln(os.Stderr, "usage: check <Cxx> [--tier quick|thorough] [--replay file] | --warm")
		os.Exit(2)
	}
	if args[0] == "--warm" {
		os.MkdirAll(filepath.Join(root, ".work", "warm"), 0o755)
		if err := build(filepath.Join(root, ".work", "warm", "vgate"), false); err != nil {
			fmt.Fprintln(os.Stderr, err)
			os.Exit(1)
		}
		if err := build(filepath.Join(root, ".work", "warm", "vgate-race"), true); err != nil {
			fmt.Fprintln(os.Stderr, err)
			os.Exit(1)
		}
		return
	}
	if args[0] == "--meta" {
		b, _ := json.Marshal(meta.Props)
		os.Stdout.Write(b)
		return
	}
	id := args[0]
	tier := os.Getenv("VERIF_TIER")
	replay := ""
	for i := 1; i < len(args); i++ {
		switch args[i] {
		case "--tier":
			i++
			tier = args[i]
		case "--replay":
			i++
			replay = args[i]
		}
	}
	if tier != "thorough" {
		tier = "quick"
	}
	seed := uint64(1)
	if s := os.Getenv("VERIF_SEED"); s != "" {
		if v, err := strconv.ParseUint(s, 10, 64); err == nil {
			seed = v
		}
	}
	p := meta.Props[id]
	if p == nil {
		fmt.Fprintf(os.Stderr, "unknown property %s\n", id)
		os.Exit(2)
	}
	work := filepath.Join(root, ".work", id)
	os.RemoveAll(work)
	os.MkdirAll(work, 0o755)
	t0 := time.Now()
	bin := filepath.Join(work, "vgate")
	if err := build(bin, false); err != nil {
		fmt.Println("INCONCLUSIVE property=" + id + " build failed")
		fmt.Fprintln(os.Stderr, err)
		os.Exit(2)
	}
	if replay != "" {
		cmd := exec.Command(bin, "replay", replay)
		cmd.Dir = root
		cmd.Stdout = os.Stdout
		cmd.Stderr = os.Stderr
		if err := cmd.Run(); err != nil {
			if ee, ok := err.(*exec.ExitError); ok {
				os.Exit(ee.ExitCode())
			}
			os.Exit(2)
		}
		return
	}
	timeout := 12 * time.Minute
	if tier == "thorough" {
		timeout = 90 * time.Minute
	}
	if v, err := strconv.Atoi(os.Getenv("VERIF_WORKER_TIMEOUT")); err == nil && v > 0 {
		timeout = time.Duration(v) * time.Second
	}

	var results []shardResult
	runAll := func(bin string, n int, race bool) {
		var wg sync.WaitGroup
		var mu sync.Mutex
		for i := 0; i < n; i++ {
			wg.Add(1)
			go func(i int) {
				defer wg.Done()
				r := runShard(bin, id, tier, seed, i, n, race, work, timeout)
				mu.Lock()
				results = append(results, r)
				mu.Unlock()
			}(i)
		}
		wg.Wait()
	}
	shards := p.Shards
	if shards <= 0 {
		shards = 16
	}
	runAll(bin, shards, false)
	raceRan := false
	if p.RaceShards > 0 && (tier == "thorough" || p.RaceQuick) {
		rbin := filepath.Join(work, "vgate-race")
		if err := build(rbin, true); err != nil {
			fmt.Println("INCONCLUSIVE property=" + id + " race build failed")
			fmt.Fprintln(os.Stderr, err)
			os.Exit(2)
		}
		runAll(rbin, p.RaceShards, true)
		raceRan = true
	}

	// merge
	var evals, distinctN int64
	dset := map[uint64]bool{}
	iset := map[uint64]bool{}
	counters := map[string]uint64{}
	stats := map[string]int64{}
	other := map[string]int64{}
	var samples []json.RawMessage
	var viols []vreport
	var inconclusive []string
	exhaustive := true
	anyRep := false
	var raceEvals int64
	for _, r := range results {
		if r.rep != nil {
			anyRep = true
			if r.race {
				raceEvals += r.rep.Evaluations
			} else {
				evals += r.rep.Evaluations
				distinctN += r.rep.DistinctN
				for _, h := range r.rep.Distinct {
					dset[h] = true
				}
				if !r.rep.Exhaustive {
					exhaustive = false
				}
			}
			for _, h := range r.rep.Interleave {
				iset[h] = true
			}
			for k, v := range r.rep.Counters {
				counters[k] += v
			}
			for k, v := range r.rep.Stats {
				stats[k] += v
			}
			for k, v := range r.rep.OtherProps {
				other[k] += v
			}
			if len(samples) < 5 {
				for _, s := range r.rep.Samples {
					if len(samples) < 5 {
						samples = append(samples, s)
					}
				}
			}
			viols = append(viols, r.rep.Violations...)
			inconclusive = append(inconclusive, r.rep.Inconclusive...)
		}
		if r.timeout {
			inconclusive = append(inconclusive, fmt.Sprintf("worker %d (race=%v) hit the watchdog; stderr tail: %s", r.idx, r.race, tail(r.stderr, 600)))
		} else if r.crashed {
			w, _ := json.Marshal(map[string]string{"stderr": r.stderr, "last_case": r.wal})
			if p.CrashIsViol {
				viols = append(viols, vreport{Prop: id, Sig: "crash", Msg: "worker process terminated abnormally: " + firstLine(r.stderr), Witness: w})
			} else {
				inconclusive = append(inconclusive, fmt.Sprintf("worker %d (race=%v) crashed (see C15): %s", r.idx, r.race, tail(r.stderr, 800)))
			}
		}
	}
	// race reports
	raceInfo := map[string]interface{}{}
	if raceRan {
		blocks := parseRaceLogs(work)
		dedup := map[string]int{}
		for _, b := range blocks {
			k := strings.Join(b, " | ")
			dedup[k]++
		}
		attributed := 0
		var unattr []string
		for k, n := range dedup {
			prop := attributeRace(k)
			if prop == id {
				attributed++
				w, _ := json.Marshal(map[string]interface{}{"functions": k, "reports": n})
				viols = append(viols, vreport{Prop: id, Sig: "race:" + raceKey(k), Msg: fmt.Sprintf("data race (%d reports) on state anchoring %s: %s", n, id, k), Witness: w})
			} else {
				unattr = append(unattr, fmt.Sprintf("%s (x%d, attributed to %q)", k, n, prop))
			}
		}
		sort.Strings(unattr)
		raceInfo["race_evaluations"] = raceEvals
		raceInfo["race_report_blocks"] = len(blocks)
		raceInfo["race_distinct_reports"] = len(dedup)
		raceInfo["race_attributed_to_this_property"] = attributed
		raceInfo["race_other_reports"] = unattr
	}
	// required coverage
	for _, site := range p.Required {
		if counters[site] == 0 {
			inconclusive = append(inconclusive, "required internal branch never reached: "+site)
		}
	}
	if !anyRep {
		inconclusive = append(inconclusive, "no worker produced a report")
	}

	// classify violations
	findings := loadFindings()
	knownPrinted := map[string]int{}
	var unlisted []vreport
	for _, v := range viols {
		if f := matchFinding(findings, v); f != nil {
			knownPrinted[f.What]++
			continue
		}
		unlisted = append(unlisted, v)
	}
	var knownLines []string
	for what, n := range knownPrinted {
		knownLines = append(knownLines, fmt.Sprintf("KNOWN-FINDING: property=%s %s (seen %d times in this run)", id, what, n))
	}
	sort.Strings(knownLines)
	for _, l := range knownLines {
		fmt.Println(l)
	}
	exit := 0
	if len(unlisted) > 0 {
		exit = 1
		os.MkdirAll(filepath.Join(root, "replays", id), 0o755)
		seen := map[string]bool{}
		n := 0
		for _, v := range unlisted {
			if seen[v.Sig] || v.Witness == nil {
				continue
			}
			seen[v.Sig] = true
			n++
			if n > 10 {
				break
			}
			path := filepath.Join(root, "replays", id, fmt.Sprintf("%s-%d-%s.json", tier, seed, sanitize(v.Sig)))
			kind := "hist"
			var wk struct {
				Kind string `json:"kind"`
			}
			if json.Unmarshal(v.Witness, &wk) == nil && wk.Kind != "" {
				kind = wk.Kind
			}
			vv := v
			vv.Witness = nil
			b, _ := json.MarshalIndent(map[string]interface{}{"kind": kind, "violation": vv, "witness": v.Witness}, "", " ")
			os.WriteFile(path, b, 0o644)
			fmt.Printf("VIOLATION property=%s replay=%s\n", id, path)
			fmt.Printf("  %s: %s\n", v.Sig, trunc(v.Msg, 400))
		}
		if n == 0 {
			path := filepath.Join(root, "replays", id, fmt.Sprintf("%s-%d-summary.json", tier, seed))
			b, _ := json.MarshalIndent(unlisted, "", " ")
			os.WriteFile(path, b, 0o644)
			fmt.Printf("VIOLATION property=%s replay=%s\n", id, path)
		}
	} else if len(inconclusive) > 0 {
		exit = 2
		for i, s := range inconclusive {
			if i >= 5 {
				break
			}
			fmt.Printf("INCONCLUSIVE property=%s %s\n", id, trunc(s, 600))
		}
	}

	// evidence
	distinct := int64(len(dset)) + distinctN
	cov := map[string]interface{}{
		"evaluations":            evals,
		"distinct_nontrivial":    distinct,
		"rule":                   p.Rule,
		"samples":                samples,
		"distinct_interleavings": len(iset),
		"hook_counters":          counters,
		"observed":               stats,
		"violations_of_other_properties_seen_in_this_workload": other,
		"known_findings_printed":                               knownLines,
		"inconclusive":                                         inconclusive,
		"worker_processes":                                     len(results),
	}
	if exhaustive && distinctN > 0 {
		cov["exhaustive"] = true
	}
	for k, v := range raceInfo {
		cov[k] = v
	}
	if samples == nil {
		cov["samples"] = []string{}
	}
	ev := map[string]interface{}{
		"property_id": id,
		"tier":        tier,
		"seed":        seed,
		"level":       p.Level,
		"coverage":    cov,
		"assumptions": p.Assumptions,
		"wall_s":      time.Since(t0).Seconds(),
		"violations":  len(unlisted),
	}
	os.MkdirAll(filepath.Join(root, "evidence"), 0o755)
	b, _ := json.MarshalIndent(ev, "", " ")
	os.WriteFile(filepath.Join(root, "evidence", id+".json"), b, 0o644)
	fmt.Printf("%s %s seed=%d: %d evaluations, %d distinct non-trivial, %d interleavings, %d unlisted violations, %d known-finding hits, %.1fs\n",
		id, tier, seed, evals, distinct, len(iset), len(unlisted), len(viols)-len(unlisted), time.Since(t0).Seconds())
	os.Exit(exit)
}

func tail(s string, n int) string {
	if len(s) > n {
		return s[len(s)-n:]
	}
	return s
}

func trunc(s string, n int) string {
	if len(s) > n {
		return s[:n] + "..."
	}
	return s
}

func firstLine(s string) string {
	for _, l := range strings.Split(s, "\n") {
		if strings.HasPrefix(l, "panic:") || strings.HasPrefix(l, "fatal error:") {
			return l
		}
	}
	if i := strings.IndexByte(s, '\n'); i > 0 {
		return s[:i]
	}
	return s
}

func sanitize(s string) string {
	var sb strings.Builder
	for _, c := range s {
		if (c >= 'a' && c <= 'z') || (c >= 'A' && c <= 'Z') || (c >= '0' && c <= '9') || c == '.' || c == '-' {
			sb.WriteRune(c)
		} else {
			sb.WriteByte('_')
		}
	}
	if sb.Len() > 80 {
		return sb.String()[:80]
	}
	return sb.String()
}

func raceKey(k string) string {
	// the first function of each of the two stacks, line numbers are not part of k
	parts := strings.Split(k, " | ")
	if len(parts) > 0 {
		return sanitize(parts[0])
	}
	return "unknown"
}

// raceTable maps substrings of accessing resgate functions to the property
// whose mechanism they belong to (DESIGN.md §3.7). First match wins.
var raceTable = []struct{ sub, prop string }{
	{"server/verifhook", ""},
	{".Verif", ""},
	{"rescache.(*Model).MarshalJSON", "C01"},
	{"rescache.(*Collection).MarshalJSON", "C01"},
	{"rescache.(*Legacy120", "C01"},
	{"(*ResourceSubscription).GetModel", "C01"},
	{"(*ResourceSubscription).GetCollection", "C01"},
	{"(*ResourceSubscription).handleEvent", "C01"},
	{"(*ResourceSubscription).processGetResponse", "C01"},
	{"(*Subscription).setModel", "C01"},
	{"(*Subscription).setCollection", "C01"},
	{"(*Subscription).processEvent", "C01"},
	{"(*Subscription).unqueueEvents", "C03"},
	{"(*Subscription).Event", "C03"},
	{"(*wsConn).Enqueue", "C03"},
	{"(*wsConn).enqueue", "C03"},
	{"(*wsConn).outputWorker", "C03"},
	{"(*EventSubscription).addCount", "C09"},
	{"(*EventSubscription).removeCount", "C09"},
	{"(*EventSubscription).mqUnsubscribe", "C09"},
	{"(*Cache).getSubscription", "C09"},
	{"(*Cache).mqUnsubscribe", "C09"},
	{"(*wsConn).dispose", "C11"},
	{"(*wsConn).Dispose", "C11"},
	{"(*Subscription).Loaded", "C11"},
	{"(*Subscription).Dispose", "C11"},
	{"(*EventSubscription).processQueue", "C13"},
	{"(*EventSubscription).enqueueUnlock", "C13"},
	{"(*EventSubscription).lockEvents", "C13"},
	{"(*EventSubscription).handleQueryEvent", "C13"},
	{"nats.(*Client)", "C18"},
	{"rescache.(*Throttle)", "C19"},
	{"(*Service).Stop", "C20"},
	{"(*Service).start", "C20"},
	{"(*Service).newWSConn", "C20"},
	{"(*Service).stopWSHandler", "C20"},
	{"(*wsConn).Disconnect", "C20"},
	{"(*wsConn).listen", "C20"},
	{"(*Cache).Stop", "C20"},
}

func attributeRace(k string) string {
	for _, fn := range strings.FieldsFunc(k, func(r rune) bool { return r == '|' || r == ' ' }) {
		if strings.Contains(fn, "verif") && !strings.Contains(fn, "resgate/server/") {
			continue
		}
		for _, e := range raceTable {
			if strings.Contains(fn, e.sub) {
				if e.prop == "" {
					break
				}
				return e.prop
			}
		}
	}
	return ""
}
