#!/bin/bash
# usage: tools_seeded.sh <name> <worktree> <property> [checks...]
# Confirms a seeded change (suite passes with it, demo fails with it and passes without),
# stores it under /verif/seeded/<name>/ and runs the given checks against it in /repo.
set -u
export GOFLAGS=-mod=mod GOPROXY=off GOSUMDB=off GOTOOLCHAIN=local
name=$1; wt=$2; prop=$3; shift 3
out=/verif/seeded/$name
mkdir -p $out
cp $wt/.out/patch.diff $out/patch.diff
cp $wt/.out/demo_test.go $out/demo_test.go 2>/dev/null
cp $wt/.out/notes.md $out/notes.md 2>/dev/null
demo=$(basename $(ls $wt/test/zz_seeded_*_test.go | head -1))
cd $wt
# normalise: revert everything except the demo, then apply the patch
git checkout -q -- . 2>/dev/null
git apply $out/patch.diff || { echo "patch does not apply"; exit 1; }
build=$(go build ./... 2>&1 && echo BUILD_OK)
mv test/$demo /tmp/$demo.keep
suite=$(go test -vet=off -count=1 ./... 2>&1 | grep -v "no test files" | tr '\n\t' '  ')
mv /tmp/$demo.keep test/$demo
run=$(grep -o 'func Test[A-Za-z0-9_]*' test/$demo | sed 's/func //' | paste -sd'|')
with=$(go test -vet=off -count=1 -run "$run" ./test/ 2>&1 | tail -1)
git apply -R $out/patch.diff
without=$(go test -vet=off -count=1 -run "$run" ./test/ 2>&1 | tail -1)
git apply $out/patch.diff
echo "build: $build"; echo "suite with change: $suite"; echo "demo with change: $with"; echo "demo without change: $without"
# run the checks against /repo with the change applied
cd /repo && git status --short | grep -v '^??' | head -3
git -C /repo apply $out/patch.diff || { echo "patch does not apply to /repo"; exit 1; }
results=""
for chk in "$@"; do
  o=$(cd /verif && ./bin/check $chk 2>&1 | grep -v "^KNOWN" | grep "VIOLATION\|INCONCLUSIVE\|quick seed" | head -4 | cut -c1-300)
  echo "--- check $chk on seeded $name:"; echo "$o"
  if echo "$o" | grep -q VIOLATION; then results="$results $chk:caught"; else results="$results $chk:missed"; fi
done
git -C /repo checkout -- .
git -C /repo status --short | grep -v '^??' | head -3
cat > $out/meta.json <<EOT
{"name": "$name", "property": "$prop", "source": "independent sub-agent given only the property text and a scratch worktree",
 "confirmed": {"build": "$build", "suite_with_change": "$suite", "demo_with_change": "$with", "demo_without_change": "$without"},
 "checks_run": "$results"}
EOT
echo "RESULT $name:$results"
