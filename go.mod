module verif

go 1.20

require (
	github.com/anishathalye/porcupine v1.3.0
	github.com/gorilla/websocket v1.4.2
	github.com/posener/wstest v1.2.0
	github.com/resgateio/resgate v0.0.0
)

require (
	github.com/bsm/openmetrics v0.3.1 // indirect
	github.com/jirenius/timerqueue v1.0.0 // indirect
	github.com/nats-io/nats.go v1.13.1-0.20211122170419-d7c1d78a50fc // indirect
	github.com/nats-io/nkeys v0.3.0 // indirect
	github.com/nats-io/nuid v1.0.1 // indirect
	github.com/rs/xid v1.3.0 // indirect
	golang.org/x/crypto v0.0.0-20210616213533-5ff15b29337e // indirect
)

replace github.com/resgateio/resgate => /repo
