// Package meta describes the checks: shared by the check command (which must
// not import the repository) and the workers.
package meta

// Prop is the static description of one property's check.
type Prop struct {
	ID          string
	Level       string // exploration | fault_enumeration
	Technique   string
	Shards      int  // worker processes for the plain build
	RaceShards  int  // worker processes for the -race build (0 = no race run)
	RaceQuick   bool // run the race build in the quick tier too
	CrashIsViol bool // a worker crash is itself a violation of this property
	Rule        string
	Assumptions []string
	Required    []string // hook counters that must be reached at least once (else inconclusive)
	DesignRef   string
	LevelText   string
	LevelNote   string
}

// Props lists the checks by property id.
var Props = map[string]*Prop{}

func add(p *Prop) { Props[p.ID] = p }

var histAssumptions = []string{
	"SimBus (the scripted mq.Client) is faithful to the NATS adapter where the gateway relies on it: single serialised delivery of replies and events, no completion after Close, adapter's subject-length rules, error on double unsubscribe",
	"RefClient is the protocol-following client: retention = reachability from confirmed direct subscriptions plus subscribe requests not yet answered; resources delivered by a get response stay available for the directly following frame(s)",
	"quiescence is the logical condition of DESIGN.md §3.4 (fence per connection + idle scan bracketed by the activity counter); a 30 s watchdog only ever yields 'inconclusive'",
	"hooks behind build tag verif do not change behaviour other than timing (perturbation points outside locks)",
}

func init() {
	add(&Prop{ID: "C01", Level: "exploration", Shards: 16, RaceShards: 16, RaceQuick: true,
		Technique:   "runtime monitoring: reference-client/reference-service convergence oracle at exact quiescence over generated histories with schedule perturbation; Go race detector attributed to the snapshot/version mechanism",
		Rule:        "generated histories (1-4 connections of mixed protocol versions, 3-8 resources with references/cycles/soft refs/data values, seq and burst modes, answers in random/oldest/newest order incl. errors and timeouts, seeded perturbation); a history is non-trivial when at least one event frame was delivered and at least one (connection, resource) pair was compared with the service state; distinct = distinct interleaving signature (order of boundary events + frames + hook counter vector); plus the sharedcoll family (collections shared by several connections, remove-heavy, burst: load-time snapshots must stay what they were), the query-resource cases of C13 that end in a convergence comparison (incl. an alias joining after events), and the directed regression scenarios; cross runs: a tenth of the budget in each of the other history families (general, sharedcoll, refgraph, requests, accounting, eventdense, lifecycle, isolation, disconnects, gating)",
		Assumptions: histAssumptions, DesignRef: "DESIGN.md §4 C01",
		Required:  []string{"sub.versionDiscard", "sub.queued"},
		LevelText: "exploration: the real gateway is driven through thousands of generated, perturbed histories and at every quiescent point each client's protocol-derived copy of every retained resource is compared with the state the reference service announced; the race detector watches the snapshot/version hand-over. Decides the executions produced, not all schedules.",
		LevelNote: "trusted base: SimBus fidelity, RefClient's reading of the client protocol, the quiescence protocol, the Go race detector"})
	add(&Prop{ID: "C02", Level: "exploration", Shards: 16, RaceShards: 0,
		Technique:   "runtime monitoring: protocol-following reference client checks every frame for dangling references and stray/inapplicable events over reference-graph histories",
		Rule:        "generated histories biased to subscribe/unsubscribe and reference-changing events over small resource sets with dense reference graphs (shared children, cycles, self references, error children); non-trivial when event frames were delivered and resources compared; distinct by interleaving signature; at every quiescent point the reference counters of every subscription of every connection (indirect, indirectsent from the hook snapshot) are compared with the reference graph of that connection, and a subscription in state sent must have a direct subscription or a sent parent; directed regression scenarios; cross runs: a tenth of the budget in each of the other history families (general, sharedcoll, refgraph, requests, accounting, eventdense, lifecycle, isolation, disconnects, gating)",
		Assumptions: histAssumptions, DesignRef: "DESIGN.md §4 C02",
		Required:  []string{"gc.delete"},
		LevelText: "exploration: every frame of every generated history is applied by the reference client, which reports a reference without data, an event for a resource it does not hold, a change on a collection / add,remove on a model and out-of-range indexes at the frame where it happens",
		LevelNote: "trusted base: RefClient retention rule (reachability), SimBus fidelity"})
	add(&Prop{ID: "C07", Level: "exploration", Shards: 16,
		Technique:   "runtime monitoring: pending-request table of the reference client checked at exact full quiescence (zero/duplicate/unknown-id responses), overlapping request mixes with adversarial answer orders",
		Rule:        "burst-mode histories with several outstanding requests per connection (subscribe/get/call/auth/new with resource responses, unsubscribe) and every answer outcome (result, RES error, timeout, no responders) in random/oldest/newest order; non-trivial when event frames were delivered and resources compared; distinct by interleaving signature; cross runs: a tenth of the budget in each of the other history families (general, sharedcoll, refgraph, requests, accounting, eventdense, lifecycle, isolation, disconnects, gating)",
		Assumptions: histAssumptions, DesignRef: "DESIGN.md §4 C07",
		LevelText: "exploration: at full quiescence (nothing outstanding, all queues idle, fence answered) every request id must have exactly one response; 'zero responses' is definite because quiescence is exact",
		LevelNote: "trusted base: exact quiescence protocol, SimBus"})
	add(&Prop{ID: "C08", Level: "exploration", Shards: 16,
		Technique:   "runtime monitoring: counter model of direct subscriptions vs. unsubscribe outcomes and vs. hooked per-connection state at quiescent points",
		Rule:        "seq-mode histories dominated by subscribe/unsubscribe(count)/get/call-with-resource on few resources with failing gets; every unsubscribe outcome is compared with the counter model and the gateway's per-connection direct counts (hook) with the protocol accounting; non-trivial when event frames were delivered and resources compared; distinct by interleaving signature; plus the limit family (255/256 direct subscriptions on one resource, then further subscribe/get/resource-response requests, unsubscribe above the granted count, release); cross runs: a tenth of the budget in each of the other history families (general, sharedcoll, refgraph, requests, accounting, eventdense, lifecycle, isolation, disconnects, gating)",
		Assumptions: histAssumptions, DesignRef: "DESIGN.md §4 C08",
		LevelText: "exploration: predictions of the counter model are asserted for every unsubscribe issued without an overlapping request on the same resource; the hooked direct counts and leftover subscriptions are checked at every quiescent point",
		LevelNote: "trusted base: VerifConns hook snapshot taken on the connection's own worker, RefClient accounting"})
}

func init() {
	add(&Prop{ID: "C12", Level: "exploration", Shards: 16,
		Technique:   "runtime monitoring: differential oracle over enumerated inputs of the exported pattern matcher and the hook-exported reset/diff pipeline (events applied to the old state must give the new state), plus reset histories against the real gateway",
		Rule:        "layer 1: every pattern over {a,b,.,*,>} x every name over {a,b,.} up to the stated length (exhaustive) plus random longer ones with other bytes, compared with an independent token-wise NATS matcher (no panic on any input); layer 2: every pair of collections over a 3-symbol alphabet up to the stated length and every pair of models over 3 keys x 6 value kinds (exhaustive) plus random longer collections with duplicates and mixed value kinds, run through the real reset pipeline and replayed on the old state; layer 3: generated histories with silent mutations + system.reset; non-trivial = valid wildcard pattern x valid name, differing old/new pair, history with delivered events; distinct = disjoint enumeration indices / interleaving signatures; re-fetch outcomes include transport-level failures (timeout, no responders) followed by a second reset (recovery)",
		Assumptions: []string{"the reference matcher implements NATS subject wildcard semantics as the property states them", "VerifCollectionReset/VerifModelReset run the unmodified processReset*/handleEvent* code on a stand-alone cache entry"},
		DesignRef:   "DESIGN.md §4 C12",
		LevelText:   "exploration with exhaustive enumeration of the stated small input spaces: the matcher and the diff pipeline are decided completely for those spaces, sampled beyond; the system layer checks the re-fetch set and convergence on generated histories",
		LevelNote:   "trusted base: reference matcher, event replay code in the harness, hook wrappers"})
	add(&Prop{ID: "C05", Level: "exploration", Shards: 16,
		Technique:   "runtime monitoring: differential oracle over enumerated call lists x methods against the exported Access.CanCall, plus boundary-log checker of call/auth/access requests in generated histories",
		Rule:        "layer 1: every call list over {a,b,',','*'} up to the stated length x 9 methods (exhaustive), reference = '*' or exact comma-separated entry; non-trivial = the method occurs inside the list string without being equal to it; layer 2: histories with call/auth/new over WebSocket and HTTP with token changes; tokenrace cases (token events while the access request of a call/new is outstanding; admissible tokens judged at partial quiescent points); cross runs: a tenth of the budget in each of the other history families (general, sharedcoll, refgraph, requests, accounting, eventdense, lifecycle, isolation, disconnects, gating)",
		Assumptions: []string{"method names never contain ',' or '*' (enforced by request validation, C14)"},
		DesignRef:   "DESIGN.md §4 C05",
		LevelText:   "exploration with exhaustive enumeration of the stated call-list space, plus monitored histories for gating and token currency",
		LevelNote:   "trusted base: reference matcher (strings.Split + equality), SimBus request log"})
	add(&Prop{ID: "C17", Level: "exploration", Shards: 16,
		Technique:   "runtime monitoring: differential oracle over generated origins x allow-lists (byte-wise reference), enumerated error-code table, and HTTP/WebSocket monitors for meta status/header handling",
		Rule:        "origins and allow-lists built from hostile atoms (case variants, ports, prefixes/suffixes, non-ASCII, invalid UTF-8, U+FFFD, Kelvin sign) compared with a byte-wise ASCII-case-insensitive reference; every predefined and 2000 random error codes against the fixed status table; non-trivial = origin differs from the allowed entry; distinct = distinct (list, origin) pairs; allow-lists of several related origins of equal length with Origin headers spliced from two entries",
		Assumptions: []string{"allow-list entries are lower-cased by configuration as the code does"},
		DesignRef:   "DESIGN.md §4 C17",
		LevelText:   "exploration: generated inputs against independent references; tables enumerated completely",
		LevelNote:   "trusted base: the byte-wise reference comparison, the status table copied from the property text"})
}

func init() {
	add(&Prop{ID: "C03", Level: "exploration", Shards: 16, RaceShards: 16,
		Technique:   "runtime monitoring: offline checker over recorded histories - per (connection, resource) the delivered event frames must be a contiguous run / suffix of the reference service's numbered event stream; race detector attributed to the event queue mechanism",
		Rule:        "event-dense histories (>=30% custom events, which no state assertion can see) over few resources and 1-4 connections with references loading, reaccess pending and heavy perturbation; per holding interval the delivered events are aligned with the stream (identity by sequence number / stamp / index+value); non-trivial when event frames were delivered and resources compared; distinct by interleaving signature; cross runs: a tenth of the budget in each of the other history families (general, sharedcoll, refgraph, requests, accounting, eventdense, lifecycle, isolation, disconnects, gating)",
		Assumptions: append([]string{"events of a resource are identified by the world's per-resource sequence number (custom), state stamp (model change) or index and value (collection), unique by construction", "histories containing system resets are exempt from the alignment (derived events supersede stream events, as the property allows)"}, histAssumptions...),
		DesignRef:   "DESIGN.md §4 C03", Required: []string{"sub.queued", "sub.requeue"},
		LevelText: "exploration: order, duplicates, gaps, events below the snapshot stamp and missing tails are decided for every holding interval of every generated history",
		LevelNote: "trusted base: world event numbering, happens-before by the single logical clock, RefClient holding intervals"})
	add(&Prop{ID: "C09", Level: "exploration", Shards: 16, RaceShards: 16,
		Technique:   "runtime monitoring: boundary-log checker (get only under a live event subscription), structural invariants of hooked cache state at quiescent points, end-state emptiness incl. /metrics gauges after the logical eviction wait; race detector attributed to count/eviction code",
		Rule:        "lifecycle histories: subscribe/unsubscribe/disconnect from 1-6 connections with get errors, delete events, calls in flight, eviction delays 0/1/5 ms and perturbation at the eviction callback; count == subscribers at every quiescent point, no entry/subscription/gauge left at the end; non-trivial when event frames were delivered and resources compared; distinct by interleaving signature; plus the longname family (resource names around the length at which event.<name> no longer fits the control line); cross runs: a tenth of the budget in each of the other history families (general, sharedcoll, refgraph, requests, accounting, eventdense, lifecycle, isolation, disconnects, gating)",
		Assumptions: histAssumptions, DesignRef: "DESIGN.md §4 C09", Required: []string{"cache.evicted", "cache.evictAbort"},
		LevelText: "exploration: the cache's bookkeeping is compared with the connections' subscriptions at every quiescent point and must be empty at the end of every history",
		LevelNote: "trusted base: VerifSnapshot/VerifConns hooks, eviction accounting hook, SimBus subscription log"})
	add(&Prop{ID: "C10", Level: "exploration", Shards: 16,
		Technique:   "runtime monitoring: boundary-log checker of cid/token in every service request and substring scan of every client frame for any connection id, over multi-connection histories with {cid}-tagged resources and token events",
		Rule:        "histories with 2-6 connections, {cid}-tagged resource ids, unique per-connection tokens set by token events; every access/call/auth payload must carry the requester's cid and an admissible token of that connection, no subject may name another connection's id or the raw tag, no frame may contain any cid; non-trivial when event frames were delivered and resources compared; distinct by interleaving signature; cross runs: a tenth of the budget in each of the other history families (general, sharedcoll, refgraph, requests, accounting, eventdense, lifecycle, isolation, disconnects, gating)",
		Assumptions: append([]string{"world payloads never contain connection ids, so any occurrence in a frame is a leak"}, histAssumptions...),
		DesignRef:   "DESIGN.md §4 C10",
		LevelText:   "exploration: every request and frame of every generated multi-connection history is scanned",
		LevelNote:   "trusted base: cid learned from the conn.<cid> subscription at connect time"})
	add(&Prop{ID: "C11", Level: "fault_enumeration", Shards: 16, RaceShards: 16,
		Technique:   "runtime monitoring with fault injection: disconnects injected at random and at every step of generated histories with requests outstanding; hooked connection/cache state and the boundary log checked at the quiescent point after each disconnect",
		Rule:        "burst histories with 2-5 connections where connections are torn down with requests unanswered and late answers released afterwards, plus a sweep injecting the disconnect at every step index of base histories; after the disconnect: connection gone, conn.<cid> unsubscribed, cache uses released (count == subscribers), no later request carrying the cid; non-trivial when event frames were delivered and resources compared; distinct by interleaving signature; plus the HTTP family (request aborted by its client, or an access re-check trigger arriving, after every number of answered service requests x late-answer order x header auth with/without token id: temporary connection, conn subscription, token-reset fan-out, cache uses all released) and the bus-level monitor 'request for a connection no longer registered'; cross runs: a tenth of the budget in each of the other history families (general, sharedcoll, refgraph, requests, accounting, eventdense, lifecycle, isolation, disconnects, gating)",
		Assumptions: histAssumptions, DesignRef: "DESIGN.md §4 C11", Required: []string{"sub.loadedAfterClose"},
		LevelText: "fault enumeration over disconnect positions: every step index of the base histories is a disconnect point; the cleanup obligations are checked at the exact quiescent point following it",
		LevelNote: "trusted base: onWSClose callback marks completion of the gateway's dispose; hooks"})
}

func init() {
	add(&Prop{ID: "C16", Level: "exploration", Shards: 16,
		Technique:   "runtime monitoring: differential oracle - real HTTP handler output against an independent recursive reference rendering of the reference service's resource graph, over enumerated and generated graphs",
		Rule:        "every digraph (self loops included) on 1-3 nodes x {model, collection} typing x both API encodings (exhaustive in the thorough tier, a seed-dependent quarter of the 3-node graphs in the quick tier), root = node 0, plus random graphs on 2-10 nodes with error leaves, soft references, nested data values, duplicate references, hostile keys and four apiPath prefixes; body must be well-formed JSON semantically equal to the reference expansion; HEAD compared with GET on status and headers; POST results verbatim / 204 for null / Location for resource responses; non-trivial = graph with at least one edge; distinct = enumeration index / graph hash",
		Assumptions: []string{"the world is static during each GET", "semantic (decoded) JSON equality, so key order and whitespace are free"},
		DesignRef:   "DESIGN.md §4 C16",
		LevelText:   "exploration with exhaustive enumeration of the small graphs: the real encoder is compared with an independent recursive renderer for every enumerated graph; termination on cycles is observed (a non-terminating request hits the watchdog and is reported inconclusive with a goroutine dump)",
		LevelNote:   "trusted base: reference renderer written from the property text, SimBus, net/http/httptest recorder"})
}

func init() {
	add(&Prop{ID: "C14", Level: "exploration", Shards: 16, CrashIsViol: false,
		Technique:   "runtime monitoring: always-on subject hygiene assertion at the messaging boundary plus a reference request decoder, over hostile WebSocket method strings and HTTP targets sent through real parsing (gorilla frames, net/http request-line parser)",
		Rule:        "method strings / request targets assembled from hostile atoms (control bytes, space, CR LF, wildcards, empty tokens, leading/trailing dots, percent-encodings of each, double encodings, non-ASCII, invalid UTF-8, 5 kB tokens, {cid}), sent as real frames and as raw HTTP request lines for GET/HEAD/POST/PUT/DELETE/PATCH with three apiPath prefixes and method mappings on/off; every subject must be hygienic and equal the reference decoder's type.name[.method]; inputs the reference classifies invalid must produce no service traffic and system.invalidRequest / 404 (405 for unmapped methods); service-supplied invalid rids must not be followed; non-trivial = input that passed at least the first validation stage (contains a dot / lies under the apiPath); distinct = generator index (inputs are generated once each)",
		Assumptions: []string{"where net/url has already percent-decoded the path before the handler sees it, either reading (decoded once or twice) is accepted for the equality half; the hygiene half is unconditional", "requests net/http's own parser rejects never reach the handler and are not counted"},
		DesignRef:   "DESIGN.md §4 C14",
		LevelText:   "exploration: generated hostile inputs through the real parsers; the boundary assertion sees every subject of every run of every check",
		LevelNote:   "trusted base: reference decoder written from the property text and protocol documents"})
}

func init() {
	add(&Prop{ID: "C04", Level: "fault_enumeration", Shards: 16,
		Technique:   "runtime monitoring with fault enumeration: every request kind x every access outcome x answer order x token history x concurrent request, with a frame/body scanner for resource data, boundary checks of the access payload and hooked subscription state",
		Rule:        "complete enumeration of {subscribe, get, new, call and auth with resource response, HTTP GET} x {grant, get:false, empty result, missing result, RES error, accessDenied error, timeout, no responders, invalid JSON} x {access answered first, gets answered first} x {no token, token set} x {single, second concurrent request on the rid} x {latest, 1.1.1 client}; the resource carries a marker string that must not appear in any frame/body without a grant and must appear with one; on denial the error / errors entry, hook direct count 0 and a failing follow-up unsubscribe are required; every case is non-trivial and distinct by construction; cross runs: a tenth of the budget in each of the other history families (general, sharedcoll, refgraph, requests, accounting, eventdense, lifecycle, isolation, disconnects, gating)",
		Assumptions: []string{"indirect resources are covered by the root's grant (as the property states)", "below protocol 1.2.0 call/auth resource responses are a bare {rid} without subscription, so nothing is denied there"},
		DesignRef:   "DESIGN.md §4 C04",
		LevelText:   "fault enumeration: the stated product of request kinds and access outcomes is executed completely against the real gateway",
		LevelNote:   "trusted base: marker scan of all frames and HTTP bodies, VerifConns hook, SimBus"})
	add(&Prop{ID: "C06", Level: "fault_enumeration", Shards: 16,
		Technique:   "runtime monitoring with fault enumeration: every trigger x verdict x holding x trigger position, the access answer withheld at exact partial quiescence while events are injected, then released; frame log and hooked state checked",
		Rule:        "complete enumeration of {token event, reaccess event, system reset with access pattern} x 9 verdicts x {held directly, directly and indirectly} x {1, 3 connections} x {idle, loading a new reference, earlier re-check pending} x {single, repeated trigger}; required: a re-check per affected connection (none for bystanders) with the current token, no event handed in after the trigger visible before the verdict, unsubscribe event with the reason and no direct subscription after a non-grant, all events in order after a grant; every case is non-trivial and distinct by construction",
		Assumptions: []string{"'after the trigger' = the trigger's mq callback had returned before the event was published (same FIFO), which the single-threaded driver guarantees"},
		DesignRef:   "DESIGN.md §4 C06",
		LevelText:   "fault enumeration over trigger kind, verdict, holding, position and repetition",
		LevelNote:   "trusted base: exact partial quiescence (everything idle except the withheld access request), SimBus ordering"})
}

func init() {
	add(&Prop{ID: "C19", Level: "exploration", Shards: 16, RaceShards: 8,
		Technique:   "runtime monitoring: invariant monitor (active <= limit, every callback runs) and porcupine linearizability check of recorded Add/Done histories of the exported Throttle against a sequential model; boundary monitor counting outstanding governed requests at every SendRequest under adversarial answer orders; race detector attributed to Throttle",
		Rule:        "direct: 2-8 goroutines x 1-5 Add each on throttles of limit 1-4, callbacks completing on other goroutines with seeded delays, each history (<= 60 operations) checked by porcupine (10 s timeout = inconclusive count); system: {reference throttle, reset throttle with resources, with resources+access, with busy subscriptions} x limit {0,1,2,3,8} x fan-out {1,2,3,5,9,14} x answer order {oldest, newest, random} x {1,3} connections with shared/cyclic children; outstanding governed requests <= N at every request, complete fan-out at quiescence, nothing delayed for N=0; distinct = parameter tuple / enumeration index, all non-trivial; resetbusyreaccess: re-checks deferred by busy subscriptions, plain reaccess events before release",
		Assumptions: []string{"which waiter a Done released is not observable at its return (the hand-over is a go statement); the porcupine model therefore decides admission (inline vs queued), the invariants cover the hand-over", "per-throttle attribution is not visible at the boundary: one reset / one subscription is in progress at a time in the bound checks"},
		DesignRef:   "DESIGN.md §4 C19",
		LevelText:   "exploration: thousands of short concurrent Add/Done histories checked for linearizability and invariants, plus an enumerated grid of system-level topologies with the bound asserted at every SendRequest",
		LevelNote:   "trusted base: porcupine v1.3.0, the 20-line sequential model, SimBus OnRequest hook"})
}

func init() {
	add(&Prop{ID: "C13", Level: "fault_enumeration", Shards: 16, RaceShards: 8,
		Technique:   "runtime monitoring with fault enumeration: scripted query-resource scenarios against a reference query service (own normalisation, window derivation and diff), hooked cache state for sharing/links, boundary log for the query-request set and the lock window, generic convergence monitors",
		Rule:        "enumeration of raw-query sets {single, two distinct, two aliases, alias + its normalised form (both orders), two aliases + distinct} x {sequential, all gets in flight} x every get answer order x every outcome per query request {events, collection, error, notFound, timeout} x every query answer order x intrusion inside the lock window {none, new subscribe, second query event} x 3 dataset mutations; checked: one cache entry per normalised query with links, exactly one query request per cached normalised query on the event's subject, nothing of the resource handled while a request of the round is unanswered, resumption afterwards, delete on notFound for that query only, events under the client's own rid, a probe query event afterwards, convergence (C01 monitor); every case distinct and non-trivial by construction; every case ends with an alias joining after events, a probe at the front of the dataset, and a release/re-subscribe phase (cache forgets the query resource and its aliases: no link to an unregistered resource, a get for every re-subscribed query)",
		Assumptions: []string{"the reference query service follows the RES service protocol: a query event's subject remembers (before, after); answers are derived for the normalised query asked", "queries answered with error/timeout are excluded from convergence until re-fetched"},
		DesignRef:   "DESIGN.md §4 C13", Required: []string{"query.link", "query.lock", "query.unlock", "query.skipRequested", "query.handover"},
		LevelText: "fault enumeration over outcomes and orders of the get and query requests of small query sets, executed completely in the thorough tier",
		LevelNote: "trusted base: reference query service, VerifSnapshot hook, exact partial quiescence"})
}

func init() {
	add(&Prop{ID: "C20", Level: "fault_enumeration", Shards: 16, RaceShards: 8, CrashIsViol: true,
		Technique:   "runtime monitoring with fault injection: Stop / loss of the messaging system injected at every step of setups with idle connections, outstanding requests, HTTP requests, a connection in the header-auth phase and pending evictions; client sockets, admission of new requests (also while the messaging client is still closing), the stop channel and restart are observed; a crash of the worker process is itself a violation",
		Rule:        "enumeration of {idle, outstanding, mixed, http, upgrade (registered connection without socket), pending eviction} x {Service.Stop(nil), closed handler with an error} x {messaging client closes at once, closes slowly with WebSocket and HTTP probes sent while stopping} x answer progress 0..6, each for up to three Start/Stop cycles on the same Service; required: Stop returns before the 25 s watchdog, every client socket closed, new WebSocket refused and HTTP answered 503 during and after stopping, the stop channel delivers exactly the injected cause, Start works again; every case is non-trivial and distinct by construction; after every restart the cache snapshot must be empty, the first subscribe needs a get, an event subscription and the service's current data",
		Assumptions: []string{"like the real adapter, SimBus never invokes a completion after Close has returned", "a WebSocket upgrade stuck in header authentication when the messaging system goes away cannot complete; it is tolerated as long as it serves nothing"},
		DesignRef:   "DESIGN.md §4 C20",
		LevelText:   "fault enumeration over fault kind, position and shutdown speed; crash freedom is observed per worker process",
		LevelNote:   "trusted base: SimBus closed-handler and Close-gate emulation, wall-clock watchdogs only ever yield 'inconclusive'"})
}

func init() {
	add(&Prop{ID: "C18", Level: "exploration", Shards: 16, RaceShards: 8, RaceQuick: false,
		Technique:   "runtime monitoring: the real NATS adapter over loopback TCP against a scripted fake NATS server; completion counter per request decided at the logical point 'nothing pending in the adapter' (hook), error class and timeout lower bounds on the monotonic clock, event order checker, closed-handler observation; race detector attributed to nats.(*Client)",
		Rule:        "rounds of 1-64 concurrent requests with a seeded behaviour each {one reply, two replies, none, timeout pre-response then reply / silence / second pre-response, empty 503, reply racing the timeout at +-1 ms, late reply, subject around the control-line limit} interleaved with 150 ordered events on a subscription, 20% of the rounds with the server dropping the TCP connection at a random moment; distinct = round seed, every round non-trivial",
		Assumptions: []string{"the fake server implements the part of the NATS protocol nats.go v1.13.1 uses here (INFO with headers, CONNECT/PING/PONG, SUB/UNSUB with max, PUB/HPUB, MSG/HMSG)", "timeouts are judged by lower bounds only; upper bounds are watchdogs", "after the server dropped the connection only 'at most one completion' and the closed handler are judged"},
		DesignRef:   "DESIGN.md §4 C18",
		LevelText:   "exploration of reply behaviours, concurrency and disconnect moments against the real adapter code",
		LevelNote:   "trusted base: natsfake, VerifPending hook, monotonic clock for lower bounds"})
}

func init() {
	add(&Prop{ID: "C15", Level: "exploration", Shards: 16, CrashIsViol: true,
		Technique:   "runtime monitoring with fuzzing: corpus and mutation based hostile messages of every kind injected into a running gateway with subscribed clients, one worker process per batch with a write-ahead log; monitors: process survival, exact quiescence and probe events (no stall), cache-vs-client agreement (all-or-nothing), cache unchanged and silence for clear-cut malformed messages",
		Rule:        "hostile messages of 16 kinds (change/add/remove/custom/wrong-kind events, get/access/call/auth/query/reset re-fetch responses, query events, system.reset, system.tokenReset, conn token events, client frames, HTTP bodies) drawn from hand-written corpora of malformed payloads (wrong JSON types, boundary integers, negative/out-of-range indexes, ambiguous/unknown value objects, unwrapped nested values, invalid rids, truncated JSON, deep nesting, 100 kB keys) or produced by seeded mutation of valid payloads, injected into gateways with a model, a collection with a reference, a query collection and two clients (latest and 1.1.1); distinct = distinct (kind, payload); all non-trivial; query collection responses with an inadmissible member next to other differences",
		Assumptions: []string{"a crash is observed as the abnormal exit of the worker process (the gateway has no recover())", "whether a mutated message is valid is not decided by the harness; for those only 'cache and clients agree afterwards' is required; 'cache unchanged, nothing forwarded' is required for the corpus entries marked as clearly malformed"},
		DesignRef:   "DESIGN.md §4 C15",
		LevelText:   "exploration by corpus + mutation fuzzing against the running gateway with invariants checked after every message",
		LevelNote:   "trusted base: VerifSnapshot hook for the cache contents, RefClient for the client copies, exact quiescence"})
}
