// Package natsfake is a minimal in-process server speaking the NATS text
// protocol (INFO/CONNECT/PING/PONG/SUB/UNSUB/PUB/HPUB/MSG/HMSG), scriptable
// per published message. It exists because the nats-server module cannot be
// built offline in this sandbox.
package natsfake

import (
	"bufio"
	"fmt"
	"net"
	"strconv"
	"strings"
	"sync"
	"sync/atomic"
)

// Pub is a message published by a client.
type Pub struct {
	Subject string
	Reply   string
	Payload []byte
	Conn    *Conn
}

type sub struct {
	subject string
	sid     string
	max     int
	got     int
}

// Conn is one client connection.
type Conn struct {
	s    *Server
	nc   net.Conn
	wmu  sync.Mutex
	mu   sync.Mutex
	subs map[string]*sub
	dead bool
}

// Server is the fake NATS server.
type Server struct {
	ln    net.Listener
	mu    sync.Mutex
	conns map[*Conn]bool
	// OnPub is called (on the connection's reader goroutine) for every PUB.
	OnPub func(p *Pub)
	// counters
	Pubs   atomic.Int64
	Subs   atomic.Int64
	Unsubs atomic.Int64
}

// New starts a server on a loopback port.
func New() (*Server, error) {
	ln, err := net.Listen("tcp", "127.0.0.1:0")
	if err != nil {
		return nil, err
	}
	s := &Server{ln: ln, conns: map[*Conn]bool{}}
	go s.accept()
	return s, nil
}

// URL returns the nats:// URL of the server.
func (s *Server) URL() string { return "nats://" + s.ln.Addr().String() }

func (s *Server) accept() {
	for {
		nc, err := s.ln.Accept()
		if err != nil {
			return
		}
		c := &Conn{s: s, nc: nc, subs: map[string]*sub{}}
		s.mu.Lock()
		s.conns[c] = true
		s.mu.Unlock()
		go c.serve()
	}
}

// Close stops the server and drops every connection.
func (s *Server) Close() {
	s.ln.Close()
	s.DropAll()
}

// DropAll closes every client connection (the server "goes away").
func (s *Server) DropAll() {
	s.mu.Lock()
	var cs []*Conn
	for c := range s.conns {
		cs = append(cs, c)
	}
	s.mu.Unlock()
	for _, c := range cs {
		c.nc.Close()
	}
}

func (c *Conn) write(b []byte) {
	c.wmu.Lock()
	c.nc.Write(b)
	c.wmu.Unlock()
}

func (c *Conn) serve() {
	defer func() {
		c.nc.Close()
		c.mu.Lock()
		c.dead = true
		c.mu.Unlock()
		c.s.mu.Lock()
		delete(c.s.conns, c)
		c.s.mu.Unlock()
	}()
	c.write([]byte(`INFO {"server_id":"FAKE","server_name":"fake","version":"2.6.6","proto":1,"go":"go","host":"127.0.0.1","port":4222,"headers":true,"max_payload":1048576}` + "\r\n"))
	r := bufio.NewReaderSize(c.nc, 64*1024)
	for {
		line, err := r.ReadString('\n')
		if err != nil {
			return
		}
		line = strings.TrimRight(line, "\r\n")
		if line == "" {
			continue
		}
		op := line
		args := ""
		if i := strings.IndexAny(line, " \t"); i >= 0 {
			op, args = line[:i], strings.TrimSpace(line[i+1:])
		}
		switch strings.ToUpper(op) {
		case "CONNECT":
		case "PING":
			c.write([]byte("PONG\r\n"))
		case "PONG":
		case "SUB":
			f := strings.Fields(args)
			if len(f) < 2 {
				continue
			}
			sb := &sub{subject: f[0], sid: f[len(f)-1]}
			c.mu.Lock()
			c.subs[sb.sid] = sb
			c.mu.Unlock()
			c.s.Subs.Add(1)
		case "UNSUB":
			f := strings.Fields(args)
			if len(f) < 1 {
				continue
			}
			c.mu.Lock()
			if len(f) > 1 {
				if sb := c.subs[f[0]]; sb != nil {
					sb.max, _ = strconv.Atoi(f[1])
					if sb.max > 0 && sb.got >= sb.max {
						delete(c.subs, f[0])
					}
				}
			} else {
				delete(c.subs, f[0])
			}
			c.mu.Unlock()
			c.s.Unsubs.Add(1)
		case "PUB", "HPUB":
			f := strings.Fields(args)
			hp := strings.ToUpper(op) == "HPUB"
			min := 2
			if hp {
				min = 3
			}
			if len(f) < min {
				return
			}
			p := &Pub{Subject: f[0], Conn: c}
			total, _ := strconv.Atoi(f[len(f)-1])
			hdr := 0
			if hp {
				hdr, _ = strconv.Atoi(f[len(f)-2])
				if len(f) == 4 {
					p.Reply = f[1]
				}
			} else if len(f) == 3 {
				p.Reply = f[1]
			}
			buf := make([]byte, total+2)
			if _, err := readFull(r, buf); err != nil {
				return
			}
			p.Payload = buf[hdr:total]
			c.s.Pubs.Add(1)
			if c.s.OnPub != nil {
				c.s.OnPub(p)
			}
		}
	}
}

func readFull(r *bufio.Reader, buf []byte) (int, error) {
	n := 0
	for n < len(buf) {
		k, err := r.Read(buf[n:])
		n += k
		if err != nil {
			return n, err
		}
	}
	return n, nil
}

func subjectMatch(pattern, subject string) bool {
	pt := strings.Split(pattern, ".")
	st := strings.Split(subject, ".")
	for i, t := range pt {
		if t == ">" {
			return len(st) > i
		}
		if i >= len(st) {
			return false
		}
		if t != "*" && t != st[i] {
			return false
		}
	}
	return len(pt) == len(st)
}

// Publish delivers a message to every matching subscription of every
// connection and returns the number of deliveries.
func (s *Server) Publish(subject string, payload []byte) int {
	return s.publish(subject, payload, nil)
}

// PublishNoResponders delivers the empty 503 status message to a reply subject.
func (s *Server) PublishNoResponders(subject string) int {
	return s.publish(subject, nil, []byte("NATS/1.0 503\r\n\r\n"))
}

func (s *Server) publish(subject string, payload, hdr []byte) int {
	s.mu.Lock()
	var cs []*Conn
	for c := range s.conns {
		cs = append(cs, c)
	}
	s.mu.Unlock()
	n := 0
	for _, c := range cs {
		c.mu.Lock()
		var sids []string
		for sid, sb := range c.subs {
			if subjectMatch(sb.subject, subject) {
				sids = append(sids, sid)
				sb.got++
				if sb.max > 0 && sb.got >= sb.max {
					delete(c.subs, sid)
				}
			}
		}
		c.mu.Unlock()
		for _, sid := range sids {
			var b []byte
			if hdr != nil {
				b = []byte(fmt.Sprintf("HMSG %s %s %d %d\r\n", subject, sid, len(hdr), len(hdr)+len(payload)))
				b = append(b, hdr...)
			} else {
				b = []byte(fmt.Sprintf("MSG %s %s %d\r\n", subject, sid, len(payload)))
			}
			b = append(b, payload...)
			b = append(b, '\r', '\n')
			c.write(b)
			n++
		}
	}
	return n
}
