package vg

// Composite runners: a property's check is the sequence of its layers.
func init() {
	Register("C12", func(c *RunCtx) {
		c12Patterns(c)
		c.Flush(false)
		c12Diff(c)
		c.Flush(false)
		c12System(c)
	})
	Register("C05", func(c *RunCtx) {
		c05Matcher(c)
		c.Flush(false)
		c05System(c)
		c.Flush(false)
		c05TokenRace(c)
		c.Flush(false)
		runHistories(c, c.N(1200, 30000), "gating", gatingCfg)
		runCross(c, c.N(120, 3000), "gating")
	})
	Register("C17", func(c *RunCtx) {
		c17StatusTable(c)
		c17Origins(c)
		c.Flush(false)
		c17System(c)
	})
	Register("C16", func(c *RunCtx) {
		c16Post(c)
		c16Graphs(c)
	})
	Register("C14", func(c *RunCtx) {
		c14Service(c)
		c14WS(c)
		c.Flush(false)
		c14HTTP(c)
	})
	Register("C04", func(c *RunCtx) {
		c04Enumerate(c)
		c.Flush(false)
		runHistories(c, c.N(1200, 30000), "gating", gatingCfg)
		runCross(c, c.N(120, 3000), "gating")
	})
	Register("C06", func(c *RunCtx) { c06Enumerate(c) })
	Register("C19", func(c *RunCtx) {
		c19Direct(c)
		c.Flush(false)
		c19System(c)
	})
	Register("C13", func(c *RunCtx) { c13Enumerate(c) })
	Register("C20", func(c *RunCtx) { c20Enumerate(c) })
	Register("C18", func(c *RunCtx) { c18Run(c) })
	Register("C15", func(c *RunCtx) { c15Run(c) })
}

// gatingCfg: histories for access gating and token currency: calls and
// subscriptions on directly and indirectly held resources interleaved with
// token events and reaccess events, with occasional denials.
func gatingCfg(i int, r *Rng) HistCfg {
	cfg := generalCfg(i, r)
	cfg.Conns = 1 + r.Intn(3)
	cfg.NRes = 3 + r.Intn(4)
	cfg.PRef = 30 + r.Intn(25)
	cfg.AccessOutcome = [4]int{86, 8, 3, 3}
	cfg.W = map[string]int{"sub": 18, "unsub": 10, "get": 8, "call": 16, "callres": 6, "new": 4, "auth": 2, "token": 10, "reaccess": 12, "change": 6, "add": 3, "remove": 3, "custom": 2, "answer": 10, "quiesce": 4}
	return cfg
}
