package vg

// Composite runners: a property's check is the sequence of its layers.
func init() {
	Register("C12", func(c *RunCtx) {
		c12Patterns(c)
		c.Flush(false)
		c12Diff(c)
		c.Flush(false)
		c12System(c)
	})
	Register("C05", func(c *RunCtx) {
		c05Matcher(c)
		c.Flush(false)
		c05System(c)
	})
	Register("C17", func(c *RunCtx) {
		c17StatusTable(c)
		c17Origins(c)
		c.Flush(false)
		c17System(c)
	})
	Register("C16", func(c *RunCtx) {
		c16Post(c)
		c16Graphs(c)
	})
	Register("C14", func(c *RunCtx) {
		c14Service(c)
		c14WS(c)
		c.Flush(false)
		c14HTTP(c)
	})
	Register("C04", func(c *RunCtx) { c04Enumerate(c) })
	Register("C06", func(c *RunCtx) { c06Enumerate(c) })
	Register("C19", func(c *RunCtx) {
		c19Direct(c)
		c.Flush(false)
		c19System(c)
	})
	Register("C13", func(c *RunCtx) { c13Enumerate(c) })
}
