package vg

import (
	"fmt"
	"runtime"
	"sync"
	"sync/atomic"
	"time"

	"github.com/anishathalye/porcupine"
	"github.com/resgateio/resgate/server/rescache"
	"github.com/resgateio/resgate/server/verifhook"
)

type thrIn struct {
	Op string // add | done
}

type thrOut struct {
	Inline bool
}

type thrState struct {
	Limit, Running, Waiting int
}

func throttleModel(limit int) porcupine.Model {
	return porcupine.Model{
		Init: func() interface{} { return thrState{Limit: limit} },
		Step: func(st, in, out interface{}) (bool, interface{}) {
			s := st.(thrState)
			switch in.(thrIn).Op {
			case "add":
				inline := out.(thrOut).Inline
				if s.Running < s.Limit {
					s.Running++
					return inline, s
				}
				s.Waiting++
				return !inline, s
			default: // done
				if s.Running <= 0 {
					return false, s
				}
				if s.Waiting > 0 {
					s.Waiting--
					return true, s
				}
				s.Running--
				return true, s
			}
		},
		Equal: func(a, b interface{}) bool { return a.(thrState) == b.(thrState) },
		DescribeOperation: func(in, out interface{}) string {
			if in.(thrIn).Op == "add" {
				return fmt.Sprintf("add->inline=%v", out.(thrOut).Inline)
			}
			return "done"
		},
	}
}

// c19Direct exercises the exported Throttle with concurrent Add/Done.
func c19Direct(c *RunCtx) {
	n := c.N(1500, 40000)
	r := NewRng(c.Seed ^ 0xc19)
	for i := 0; i < n; i++ {
		seed := r.U64()
		if !c.Mine(i) {
			continue
		}
		rr := NewRng(seed)
		limit := 1 + rr.Intn(4)
		workers := 2 + rr.Intn(7)
		perWorker := 1 + rr.Intn(5)
		verifhook.Configure(seed, 30, nil)
		t := rescache.NewThrottle(limit)
		var clock atomic.Int64
		var mu sync.Mutex
		var ops []porcupine.Operation
		var active, maxActive, started, finished atomic.Int64
		var wg sync.WaitGroup
		total := workers * perWorker
		doneCh := make(chan struct{}, total)
		record := func(op porcupine.Operation) {
			mu.Lock()
			ops = append(ops, op)
			mu.Unlock()
		}
		for wk := 0; wk < workers; wk++ {
			wg.Add(1)
			go func(wk int, wr *Rng) {
				defer wg.Done()
				for k := 0; k < perWorker; k++ {
					// inline = the callback ran on the goroutine that called Add
					// (a queued callback is started on a goroutine of its own,
					// possibly before Add has returned)
					me := goid()
					var ranInline atomic.Bool
					delay := time.Duration(wr.Intn(200)) * time.Microsecond
					call := clock.Add(1)
					t.Add(func() {
						if goid() == me {
							ranInline.Store(true)
						}
						a := active.Add(1)
						for {
							m := maxActive.Load()
							if a <= m || maxActive.CompareAndSwap(m, a) {
								break
							}
						}
						started.Add(1)
						// the governed work completes on another goroutine
						go func() {
							if delay > 0 {
								time.Sleep(delay)
							} else {
								runtime.Gosched()
							}
							active.Add(-1)
							dc := clock.Add(1)
							t.Done()
							record(porcupine.Operation{ClientId: 100 + wk, Input: thrIn{"done"}, Call: dc, Output: thrOut{}, Return: clock.Add(1)})
							finished.Add(1)
							doneCh <- struct{}{}
						}()
					})
					ret := clock.Add(1)
					record(porcupine.Operation{ClientId: wk, Input: thrIn{"add"}, Call: call, Output: thrOut{Inline: ranInline.Load()}, Return: ret})
				}
			}(wk, NewRng(rr.U64()))
		}
		wg.Wait()
		// bounded progress: every added callback runs once all Dones are issued
		timeout := time.After(20 * time.Second)
		stalled := false
		for k := 0; k < total && !stalled; k++ {
			select {
			case <-doneCh:
			case <-timeout:
				stalled = true
			}
		}
		c.Eval(1)
		c.Distinct(Hash64(fmt.Sprint(limit, workers, perWorker, maxActive.Load(), len(ops))))
		wit := map[string]interface{}{"kind": "throttle", "limit": limit, "workers": workers, "per_worker": perWorker, "seed": seed}
		if stalled {
			if verifhook.Inflight() == 0 {
				c.Violation(VReport{Prop: "C19", Sig: "throttleStall", Msg: fmt.Sprintf("limit %d: only %d of %d callbacks ran although every started callback called Done and nothing is in flight", limit, started.Load(), total), Witness: wit})
			} else {
				c.Inconclusive("C19 direct: watchdog with goroutines in flight")
			}
			continue
		}
		if m := maxActive.Load(); int(m) > limit {
			c.Violation(VReport{Prop: "C19", Sig: "throttleOverAdmission", Msg: fmt.Sprintf("limit %d but %d callbacks were active at once", limit, m), Witness: wit})
		}
		if started.Load() != int64(total) {
			c.Violation(VReport{Prop: "C19", Sig: "throttleLostCallback", Msg: fmt.Sprintf("%d callbacks added, %d ran", total, started.Load()), Witness: wit})
		}
		// the Done operations of queued hand-overs are concurrent with the
		// goroutine start; the linearizability check covers admission decisions
		if len(ops) <= 60 {
			res := porcupine.CheckOperationsTimeout(throttleModel(limit), ops, 10*time.Second)
			c.Stat("c19_porcupine_histories", 1)
			switch res {
			case porcupine.Illegal:
				c.Violation(VReport{Prop: "C19", Sig: "throttleNotLinearizable", Msg: fmt.Sprintf("limit %d: the recorded Add/Done history (%d operations) has no linearisation consistent with the admission decisions", limit, len(ops)), Witness: wit})
			case porcupine.Unknown:
				c.Stat("c19_porcupine_timeouts", 1)
			}
		}
		if i%300 == 0 {
			c.Sample(map[string]interface{}{"layer": "direct", "limit": limit, "workers": workers, "per_worker": perWorker, "max_active": maxActive.Load(), "ops": len(ops)})
		}
	}
}

// c19System checks the bound at the messaging boundary for reference and
// reset throttles.
func c19System(c *RunCtx) {
	idx := 0
	for _, kind := range []string{"reference", "reset", "resetaccess", "resetbusy", "resetunsub", "resetclose", "resetbusyreaccess"} {
		for _, limit := range []int{0, 1, 2, 3, 8} {
			for _, fan := range []int{1, 2, 3, 5, 9, 14} {
				for _, order := range []string{"oldest", "newest", "random"} {
					for _, conns := range []int{1, 3} {
						idx++
						if !c.Mine(idx) {
							continue
						}
						if !c.Thorough() && (fan == 14 || (fan == 9 && conns == 3)) && kind != "reference" {
							continue
						}
						c.WAL("C19 system %s limit=%d fan=%d order=%s conns=%d", kind, limit, fan, order, conns)
						c19Case(c, kind, limit, fan, order, conns, uint64(idx)+c.Seed*1000)
						c.Eval(1)
						c.Rep.DistinctN++
					}
				}
			}
		}
	}
}

func c19Case(c *RunCtx, kind string, limit, fan int, order string, conns int, seed uint64) {
	wit := map[string]interface{}{"kind": "c19case", "case": kind, "limit": limit, "fan": fan, "order": order, "conns": conns}
	fail := func(sig, format string, a ...interface{}) {
		c.Violation(VReport{Prop: "C19", Sig: sig, Msg: fmt.Sprintf("[%s limit=%d fan=%d order=%s conns=%d] ", kind, limit, fan, order, conns) + fmt.Sprintf(format, a...), Witness: wit})
	}
	cfg := HistCfg{Seed: seed, Pct: 15, AnswerOrder: order}
	if kind == "reference" {
		cfg.RefThrottle = limit
	} else {
		cfg.ResetThrottle = limit
	}
	s := NewScript(cfg)
	if !s.ok {
		return
	}
	defer func() {
		s.h.g.CloseAll()
		s.h.g.Stop()
	}()
	g := s.h.g
	w := s.World()
	rng := NewRng(seed)
	// root -> fan children, some shared/cyclic
	root := map[string]Val{}
	for i := 0; i < fan; i++ {
		name := fmt.Sprintf("t.c%d", i)
		root[fmt.Sprintf("k%d", i)] = Ref(name)
		child := map[string]Val{"v": P(i)}
		if i%4 == 1 {
			child["back"] = Ref("t.root")
		}
		if i%5 == 2 && i > 0 {
			child["sib"] = Ref(fmt.Sprintf("t.c%d", i-1))
		}
		w.AddModel(name, child)
	}
	w.AddModel("t.root", root)
	w.AddModel("t.slow", map[string]Val{"s": P(1)})
	var cls []*WSClient
	for i := 0; i < conns; i++ {
		cl := s.Connect("1.2.3")
		if cl == nil {
			return
		}
		cls = append(cls, cl)
	}
	s.Settle()
	// the monitor: outstanding governed requests at every SendRequest
	var governed func(r *BusReq) bool
	var maxOut atomic.Int64
	watch := func() {
		g.Bus.OnRequest = func(r *BusReq) {
			n := int64(0)
			for _, o := range g.Bus.Outstanding() {
				if governed(o) {
					n++
				}
			}
			for {
				m := maxOut.Load()
				if n <= m || maxOut.CompareAndSwap(m, n) {
					break
				}
			}
		}
	}
	holdSlow := false
	pick := func() *BusReq {
		out := g.Bus.Outstanding()
		if holdSlow {
			var keep []*BusReq
			for _, r := range out {
				if r.Subject != "get.t.slow" {
					keep = append(keep, r)
				}
			}
			out = keep
		}
		if len(out) == 0 {
			return nil
		}
		switch order {
		case "oldest":
			return out[0]
		case "newest":
			return out[len(out)-1]
		}
		return out[rng.Intn(len(out))]
	}
	answer := func(r *BusReq) {
		switch r.Kind {
		case "access":
			g.Bus.Reply(r, []byte(`{"result":{"get":true,"call":"*"}}`), nil)
		case "get":
			name := r.Name
			g.Bus.Reply(r, nil, func() []byte { return w.GetResponse(name) })
		default:
			g.Bus.Reply(r, []byte(`{"result":null}`), nil)
		}
	}
	drain := func() bool {
		for guard := 0; guard < 2000; guard++ {
			s.Quiesce()
			if !s.ok {
				c.Inconclusive("C19: " + s.res.Inconclusive)
				return false
			}
			r := pick()
			if r == nil {
				return true
			}
			answer(r)
		}
		return false
	}
	switch kind {
	case "resetbusyreaccess":
		// direct subscriptions on every child, all of them busy loading a new
		// reference when the reset arrives (re-check deferred, to be sent
		// through the reset's throttle), then a plain reaccess event on each
		// before they are released: the deferred re-checks are still governed
		governed = func(r *BusReq) bool { return false }
		for i := 0; i < fan; i++ {
			s.Req(cls[0], fmt.Sprintf("subscribe.t.c%d", i), nil)
		}
		if !drain() {
			return
		}
		holdSlow = true
		for i := 0; i < fan; i++ {
			w.Change(fmt.Sprintf("t.c%d", i), map[string]*Val{"slow": vp(Ref("t.slow"))})
		}
		if !drain() {
			return
		}
		n0 := g.Bus.NumReqs()
		governed = func(r *BusReq) bool { return r.ID >= n0 && r.Kind == "access" }
		watch()
		w.SystemReset(nil, []string{"t.>"})
		s.Quiesce()
		for i := 0; i < fan; i++ {
			if i%3 != 2 {
				w.Reaccess(fmt.Sprintf("t.c%d", i))
			}
		}
		s.Quiesce()
		holdSlow = false
		if !drain() {
			return
		}
		seen := map[string]bool{}
		for _, r := range g.Bus.Reqs()[n0:] {
			if r.Kind == "access" && r.CID == cls[0].CID {
				seen[r.Name] = true
			}
		}
		for i := 0; i < fan; i++ {
			if name := fmt.Sprintf("t.c%d", i); !seen[name] {
				fail("throttleStall", "direct subscription %s was never re-checked after the reset although everything was answered", name)
				return
			}
		}
		if limit > 0 && int(maxOut.Load()) > limit {
			fail("boundExceeded", "%d governed access requests outstanding at once, limit %d", maxOut.Load(), limit)
		}
	case "resetunsub", "resetclose":
		// direct subscriptions on every child; while the throttled re-checks
		// are outstanding their subscriptions are released (unsubscribe or
		// disconnect); the late answers must still free the slots
		governed = func(r *BusReq) bool { return false }
		for i := 0; i < fan; i++ {
			s.Req(cls[0], fmt.Sprintf("subscribe.t.c%d", i), nil)
		}
		if conns > 1 {
			for i := 0; i < fan; i++ {
				s.Req(cls[1], fmt.Sprintf("subscribe.t.c%d", i), nil)
			}
		}
		if !drain() {
			return
		}
		n0 := g.Bus.NumReqs()
		governed = func(r *BusReq) bool { return r.ID >= n0 && r.Kind == "access" }
		watch()
		w.SystemReset(nil, []string{"t.>"})
		s.Quiesce()
		first := g.Bus.Outstanding()
		if kind == "resetunsub" {
			for _, r := range first {
				if r.Kind == "access" && r.CID == cls[0].CID {
					s.Req(cls[0], "unsubscribe."+r.Name, nil)
				}
			}
		} else {
			cls[0].Close()
		}
		s.Quiesce()
		if !drain() {
			return
		}
		accesses := 0
		seen := map[string]bool{}
		for _, r := range g.Bus.Reqs()[n0:] {
			if r.Kind == "access" {
				accesses++
				seen[r.CID+" "+r.Name] = true
			}
		}
		// every direct subscription that still exists must have been re-checked
		want := 0
		for ci, cl := range cls {
			if ci > 1 || (ci == 0 && kind == "resetclose") {
				continue
			}
			for i := 0; i < fan; i++ {
				name := fmt.Sprintf("t.c%d", i)
				unsubbed := false
				if ci == 0 && kind == "resetunsub" {
					for _, r := range first {
						if r.Kind == "access" && r.CID == cl.CID && r.Name == name {
							unsubbed = true
						}
					}
				}
				if unsubbed {
					continue
				}
				want++
				if !seen[cl.CID+" "+name] {
					fail("throttleStall", "direct subscription %s of connection %d was never re-checked after the reset although everything was answered (a throttle slot leaked)", name, ci)
					return
				}
			}
		}
		_ = want
		if limit > 0 && int(maxOut.Load()) > limit {
			fail("boundExceeded", "%d governed requests outstanding at once, limit %d", maxOut.Load(), limit)
		}
	case "reference":
		governed = func(r *BusReq) bool { return r.Kind == "get" }
		watch()
		n0 := g.Bus.NumReqs()
		// one subscription at a time governs its own reference gets
		s.Req(cls[0], "subscribe.t.root", nil)
		if limit == 0 {
			// nothing is delayed: answering only the root get exposes the whole fan-out
			s.Quiesce()
			for _, r := range g.Bus.Outstanding() {
				if r.Subject == "get.t.root" {
					answer(r)
				}
			}
			s.Quiesce()
			gets := 0
			for _, r := range g.Bus.Reqs()[n0:] {
				if r.Kind == "get" {
					gets++
				}
			}
			if gets != fan+1 {
				fail("zeroLimitDelays", "with limit 0 only %d of %d gets were outstanding before any child answer", gets, fan+1)
			}
		}
		if !drain() {
			return
		}
		gets := 0
		for _, r := range g.Bus.Reqs()[n0:] {
			if r.Kind == "get" {
				gets++
			}
		}
		if gets != fan+1 {
			fail("fanoutIncomplete", "%d get requests were sent, the subscription needs %d (bounded progress at quiescence)", gets, fan+1)
		}
		if limit > 0 && int(maxOut.Load()) > limit {
			fail("boundExceeded", "%d governed get requests outstanding at once, limit %d", maxOut.Load(), limit)
		}
		// the response must have arrived
		ok := false
		for _, f := range cls[0].Frames() {
			if f.HasID && f.HasRes && !f.Fence && len(f.Result) > 40 {
				ok = true
			}
		}
		if !ok {
			fail("noResponse", "subscribe.t.root was never answered")
		}
	default:
		// subscribe every connection to the root first (unthrottled governed set empty)
		governed = func(r *BusReq) bool { return false }
		for _, cl := range cls {
			s.Req(cl, "subscribe.t.root", nil)
		}
		if !drain() {
			return
		}
		if kind == "resetbusy" {
			// make the subscriptions busy (loading a new reference) when the reset arrives
			w.Change("t.root", map[string]*Val{"slow": vp(Ref("t.slow"))})
			s.Quiesce()
		}
		n0 := g.Bus.NumReqs()
		governed = func(r *BusReq) bool {
			return r.ID >= n0 && (r.Kind == "get" || r.Kind == "access") && r.Name != "t.slow"
		}
		watch()
		deferred0 := verifhook.Counter("sub.reaccessDeferred")
		switch kind {
		case "reset":
			w.SystemReset([]string{"t.>"}, nil)
		case "resetaccess", "resetbusy":
			w.SystemReset([]string{"t.>"}, []string{"t.>"})
		}
		if limit == 0 {
			s.Quiesce()
			gets := 0
			for _, r := range g.Bus.Reqs()[n0:] {
				if r.Kind == "get" {
					gets++
				}
			}
			if kind != "resetbusy" && gets != fan+1 {
				fail("zeroLimitDelays", "with limit 0 only %d of %d re-fetches were outstanding before any answer", gets, fan+1)
			}
		}
		if !drain() {
			return
		}
		gets, accesses := 0, 0
		for _, r := range g.Bus.Reqs()[n0:] {
			if r.Kind == "get" && r.Name != "t.slow" {
				gets++
			}
			if r.Kind == "access" {
				accesses++
			}
		}
		wantGets := fan + 1
		if gets != wantGets {
			fail("fanoutIncomplete", "%d re-fetch requests were sent, %d cached resources match (bounded progress at quiescence)", gets, wantGets)
		}
		if kind != "reset" && accesses < conns {
			fail("fanoutIncomplete", "%d access re-requests were sent for %d direct subscriptions", accesses, conns)
		}
		if limit > 0 && int(maxOut.Load()) > limit {
			sig := "boundExceeded"
			if verifhook.Counter("sub.reaccessDeferred") > deferred0 {
				sig = "boundExceeded.deferredReaccess"
			}
			fail(sig, "%d governed requests outstanding at once, limit %d", maxOut.Load(), limit)
		}
	}
	g.Bus.OnRequest = nil
}

// goid returns the current goroutine's id (parsed from the stack header).
func goid() uint64 {
	var buf [64]byte
	n := runtime.Stack(buf[:], false)
	// "goroutine 123 [running]:"
	var id uint64
	for _, c := range buf[len("goroutine "):n] {
		if c < '0' || c > '9' {
			break
		}
		id = id*10 + uint64(c-'0')
	}
	return id
}
