package vg

import (
	"fmt"
	"strings"
)

// c10CIDQuery: {cid} tags in the query part of resource ids. Every connection
// gets its own expansion towards the services (query in the payload of
// access/get/call requests), its own cached resource and its own data; frames
// echo the tag unexpanded (generic frame scan).
func c10CIDQuery(c *RunCtx) {
	idx := 0
	for _, conns := range []int{2, 3} {
		for _, op := range []string{"subscribe", "get", "call", "mixed"} {
			idx++
			if !c.Mine(idx) {
				continue
			}
			cs := map[string]interface{}{"kind": "c10cidquery", "conns": conns, "op": op}
			c.WAL("C10 cidquery %v", cs)
			s := NewScript(HistCfg{Seed: 10, Pct: 15})
			if !s.ok {
				c.Inconclusive("C10 cidquery: " + s.res.Inconclusive)
				continue
			}
			g := s.Gate()
			w := s.World()
			w.AddQueryColl("q.items", []Val{P("i0"), P("i1"), P("i2"), P("i3")})
			var cls []*WSClient
			for i := 0; i < conns; i++ {
				if cl := s.Connect("1.2.3"); cl != nil {
					cls = append(cls, cl)
				}
			}
			s.Settle()
			n0 := g.Bus.NumReqs()
			rid := "q.items?w=2&owner={cid}"
			for _, cl := range cls {
				switch op {
				case "subscribe":
					s.Req(cl, "subscribe."+rid, nil)
				case "get":
					s.Req(cl, "get."+rid, nil)
				case "call":
					s.Req(cl, "call."+rid+".m", nil)
				default:
					s.Req(cl, "subscribe."+rid, nil)
					s.Req(cl, "call."+rid+".m", nil)
				}
				s.Settle()
			}
			// every connection's requests carry its own id in the query
			for _, cl := range cls {
				seen := map[string]bool{}
				for _, r := range g.Bus.Reqs()[n0:] {
					if r.Name != "q.items" {
						continue
					}
					if r.CID == cl.CID || (r.Kind == "get" && strings.Contains(r.Query, cl.CID)) {
						seen[r.Kind] = true
						if !strings.Contains(r.Query, "owner="+cl.CID) {
							s.Fail("C10", "cidNotExpanded", "request %s for connection %d carries query %q, want owner=%s", r.Subject, cl.Idx, r.Query, cl.CID)
						}
					}
				}
				want := []string{"access"}
				switch op {
				case "subscribe", "get", "mixed":
					want = append(want, "get")
				}
				if op == "call" || op == "mixed" {
					want = append(want, "call")
				}
				for _, k := range want {
					if !seen[k] {
						s.Fail("C10", "sharedAcrossConnections", "no %s request with connection %d's own id in the query was made for %s (served from another connection's resource?)", k, cl.Idx, rid)
					}
				}
			}
			// an event for one connection's query resource reaches only that connection
			res := s.Finish()
			g.CloseAll()
			g.Stop()
			c.Eval(1)
			c.Rep.DistinctN++
			c.Stat("c10_cidquery_cases", 1)
			if res.Inconclusive != "" {
				c.Inconclusive(fmt.Sprintf("C10 cidquery %v: %s", cs, res.Inconclusive))
			}
			seenV := map[string]bool{}
			for _, v := range res.Viol {
				if seenV[v.Prop+v.Sig] {
					continue
				}
				seenV[v.Prop+v.Sig] = true
				c.Violation(VReport{Prop: v.Prop, Sig: v.Sig, RID: v.RID, Msg: fmt.Sprintf("%v: %s", cs, v.Msg), Witness: cs})
			}
		}
	}
}
