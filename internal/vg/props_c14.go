package vg

import (
	"bufio"
	"bytes"
	"encoding/json"
	"fmt"
	"net/http"
	"net/http/httptest"
	"net/url"
	"strings"

	"github.com/resgateio/resgate/server"
)

// refTokenValid: non-empty, bytes 33..126 without * > ? and dot.
func refTokenValid(t string) bool {
	if t == "" {
		return false
	}
	for i := 0; i < len(t); i++ {
		c := t[i]
		if c < 33 || c > 126 || c == '*' || c == '>' || c == '?' || c == '.' {
			return false
		}
	}
	return true
}

// refNameOK: dot separated valid tokens.
func refNameOK(n string) bool {
	if n == "" {
		return false
	}
	for _, t := range strings.Split(n, ".") {
		if !refTokenValid(t) {
			return false
		}
	}
	return true
}

type refReq struct {
	Valid  bool
	Action string
	Name   string
	Query  string
	Method string
}

// refClassifyWS classifies a (JSON-decoded) WebSocket method string.
func refClassifyWS(m string) refReq {
	i := strings.IndexByte(m, '.')
	if i < 0 {
		return refReq{}
	}
	r := refReq{Action: m[:i]}
	rest := m[i+1:]
	switch r.Action {
	case "call", "auth":
		j := strings.LastIndexByte(rest, '.')
		if j < 0 {
			return refReq{}
		}
		r.Method = rest[j+1:]
		rest = rest[:j]
		if !refTokenValid(r.Method) {
			return refReq{}
		}
	case "get", "subscribe", "unsubscribe", "new":
	default:
		return refReq{}
	}
	if q := strings.IndexByte(rest, '?'); q >= 0 {
		r.Name, r.Query = rest[:q], rest[q+1:]
	} else {
		r.Name = rest
	}
	if !refNameOK(r.Name) {
		return refReq{}
	}
	r.Valid = true
	return r
}

// expectedSubjects lists the subjects a valid request may produce.
func (r refReq) expectedSubjects(cid string) map[string]bool {
	n := strings.Replace(r.Name, "{cid}", cid, -1)
	switch r.Action {
	case "get", "subscribe":
		return map[string]bool{"access." + n: true, "get." + n: true}
	case "new":
		return map[string]bool{"access." + n: true, "call." + n + ".new": true}
	case "call":
		return map[string]bool{"access." + n: true, "call." + n + "." + r.Method: true}
	case "auth":
		return map[string]bool{"auth." + n + "." + r.Method: true}
	}
	return map[string]bool{}
}

var wsAtoms = []string{"a", "b1", "svc", ".", ".", ".", "..", "*", ">", "?", "?q=1", " ", "\t", "\r\n", "\x01", "\x7f", "é", "\xff", "\xc3", "{cid}", "~", "A", "%2E", "call", "get", "subscribe", "unsubscribe", "auth", "new", "version", "m", "\"", "\\", "/", "&x=.y", strings.Repeat("x", 5000)}

// rawJSONString encodes arbitrary bytes as a JSON string literal keeping
// bytes >= 0x80 raw (so invalid UTF-8 reaches the gateway's JSON decoder).
func rawJSONString(s string) []byte {
	var b bytes.Buffer
	b.WriteByte('"')
	for i := 0; i < len(s); i++ {
		c := s[i]
		switch {
		case c == '"' || c == '\\':
			b.WriteByte('\\')
			b.WriteByte(c)
		case c < 0x20:
			fmt.Fprintf(&b, "\\u%04x", c)
		default:
			b.WriteByte(c)
		}
	}
	b.WriteByte('"')
	return b.Bytes()
}

// c14WS drives hostile method strings through a real connection.
func c14WS(c *RunCtx) {
	r := NewRng(c.Seed ^ 0xc14)
	n := c.N(24000, 400000)
	const batch = 150
	var g *Gate
	var cl *WSClient
	var w *World
	inBatch := 0
	defer func() {
		if g != nil {
			g.Stop()
		}
	}()
	settle := func() bool {
		for k := 0; k < 200; k++ {
			if err := g.Quiesce(QOpts{AllowOutstanding: true}); err != nil {
				c.Inconclusive("C14 ws: " + err.Error())
				return false
			}
			out := g.Bus.Outstanding()
			if len(out) == 0 {
				return true
			}
			rq := out[0]
			switch rq.Kind {
			case "access":
				g.Bus.Reply(rq, []byte(`{"result":{"get":true,"call":"*"}}`), nil)
			case "get":
				g.Bus.Reply(rq, []byte(`{"result":{"model":{"a":1}}}`), nil)
			default:
				g.Bus.Reply(rq, []byte(`{"result":{"ok":1}}`), nil)
			}
		}
		return false
	}
	var nontrivial int64
	for i := 0; i < n; i++ {
		seed := r.U64()
		if !c.Mine(i) {
			continue
		}
		rr := NewRng(seed)
		if g == nil || inBatch >= batch {
			if g != nil {
				g.Stop()
			}
			var err error
			g, err = NewGate(GateOpts{Seed: seed})
			if err != nil {
				c.Inconclusive(err.Error())
				return
			}
			w = NewWorld(g.Bus)
			_ = w
			before := map[string]bool{}
			for _, s := range g.Bus.ActiveSubs() {
				before[s] = true
			}
			cl, _, err = g.Connect("1.2.3", nil)
			if err != nil {
				c.Inconclusive(err.Error())
				return
			}
			for _, s := range g.Bus.ActiveSubs() {
				if !before[s] && strings.HasPrefix(s, "conn.") {
					cl.CID = s[5:]
				}
			}
			inBatch = 0
			if !settle() {
				return
			}
		}
		inBatch++
		// build the method string
		var m string
		if rr.Chance(70) {
			m = []string{"get", "subscribe", "call", "auth", "new", "unsubscribe"}[rr.Intn(6)] + "."
			if rr.Chance(60) {
				m += fmt.Sprintf("u%d.", i)
			}
		}
		for k := rr.Intn(4); k >= 0; k-- {
			m += wsAtoms[rr.Intn(len(wsAtoms))]
		}
		c.WAL("C14 ws method %q", m)
		raw := append([]byte(`{"id":`), []byte(fmt.Sprint(1000+i))...)
		raw = append(raw, []byte(`,"method":`)...)
		raw = append(raw, rawJSONString(m)...)
		raw = append(raw, '}')
		// what any JSON decoder makes of it
		var dec struct {
			Method string `json:"method"`
		}
		if json.Unmarshal(raw, &dec) != nil {
			continue
		}
		n0 := g.Bus.NumReqs()
		f0 := len(cl.Frames())
		id := cl.ReserveID(m, func(uint64) []byte { return raw }, "raw")
		_ = id
		if !settle() {
			return
		}
		c.Eval(1)
		ref := refClassifyWS(dec.Method)
		var newReqs []*BusReq
		for _, rq := range g.Bus.Reqs()[n0:] {
			newReqs = append(newReqs, rq)
		}
		var resp *Frame
		for _, f := range cl.Frames()[f0:] {
			f := f
			if f.HasID && *f.ID == uint64(1000+i) {
				resp = &f
			}
		}
		wit := map[string]interface{}{"kind": "wsmethod", "method": m, "decoded": dec.Method}
		for _, v := range g.Bus.Violations() {
			c.Violation(VReport{Prop: "C14", Sig: "subjectHygiene", Msg: fmt.Sprintf("method %q: %s", m, v), Witness: wit})
		}
		g.Bus.mu.Lock()
		g.Bus.viol = nil
		g.Bus.mu.Unlock()
		if dec.Method == "version" {
			continue
		}
		if !ref.Valid {
			if len(newReqs) > 0 {
				c.Violation(VReport{Prop: "C14", Sig: "trafficOnInvalid", Msg: fmt.Sprintf("invalid method %q produced service traffic: %s", m, newReqs[0].Subject), Witness: wit})
			}
			if resp == nil || resp.Error == nil || resp.Error.CodeStr() != "system.invalidRequest" {
				got := "no response"
				if resp != nil {
					got = string(resp.Raw)
				}
				c.Violation(VReport{Prop: "C14", Sig: "invalidNotRejected", Msg: fmt.Sprintf("invalid method %q answered %s (want system.invalidRequest)", m, trunc200([]byte(got))), Witness: wit})
			}
			if strings.ContainsAny(dec.Method, ".") {
				nontrivial++
			}
			continue
		}
		nontrivial++
		exp := ref.expectedSubjects(cl.CID)
		tooLong := false
		for s := range exp {
			if len(s)+inboxLen > maxControlLine {
				tooLong = true
			}
		}
		for _, rq := range newReqs {
			if !exp[rq.Subject] {
				c.Violation(VReport{Prop: "C14", Sig: "unexpectedSubject", Msg: fmt.Sprintf("method %q produced request %q; expected one of %v", trunc200([]byte(m)), trunc200([]byte(rq.Subject)), keys(exp)), Witness: wit})
			}
			// the query travels only in the payload
			if ref.Query != "" && (rq.Kind == "access" || rq.Kind == "call" || rq.Kind == "auth") && rq.Query != strings.Replace(ref.Query, "{cid}", cl.CID, -1) {
				c.Violation(VReport{Prop: "C14", Sig: "queryNotInPayload", Msg: fmt.Sprintf("method %q: payload query %q, want %q", m, rq.Query, ref.Query), Witness: wit})
			}
			if rq.CID != "" && rq.CID != cl.CID {
				c.Violation(VReport{Prop: "C14", Sig: "wrongCID", Msg: "request carries foreign cid", Witness: wit})
			}
		}
		if resp == nil {
			c.Violation(VReport{Prop: "C14", Sig: "validNoResponse", Msg: fmt.Sprintf("valid method %q got no response", trunc200([]byte(m))), Witness: wit})
		} else if resp.Error != nil && resp.Error.CodeStr() == "system.invalidRequest" {
			c.Violation(VReport{Prop: "C14", Sig: "validRejected", Msg: fmt.Sprintf("valid method %q rejected as invalid request", trunc200([]byte(m))), Witness: wit})
		} else if ref.Action != "unsubscribe" && len(newReqs) == 0 && !tooLong && resp.Error == nil {
			// a valid request that reached no service can only be answered from
			// what the connection already holds (same rid used before)
			c.Stat("c14_valid_served_locally", 1)
		}
		if i%2000 == 0 {
			c.Sample(map[string]interface{}{"layer": "ws", "method": trunc200([]byte(m)), "valid": ref.Valid, "requests": len(newReqs)})
		}
	}
	c.Stat("c14_ws_nontrivial", nontrivial)
	c.Rep.DistinctN += nontrivial
}

var httpAtoms = []string{"a", "b1", "svc", "/", "/", "/", "//", ".", "%2E", "%2e", "*", "%2A", ">", "%3E", "?", "%3F", "?q=1", "%20", "+", "%00", "%0D%0A", "é", "%C3%A9", "%FF", "%", "%zz", "%2541", "%252E", "{cid}", "%7Bcid%7D", "~", ";", "A", "&x=.y", "%2F", strings.Repeat("y", 5000)}

func pctDecodeOnce(s string) (string, bool) {
	d, err := url.PathUnescape(s)
	if err != nil {
		return "", false
	}
	return d, true
}

// refHTTPNames returns the resource names (before any '?') an API path may
// denote: percent-decoding applied once, or twice where net/url already
// decoded the path before the handler saw it.
func refHTTPNames(rawPathRest string) (names []string, ok bool) {
	// one extra slash directly after the prefix is tolerated by the gateway
	rawPathRest = strings.TrimPrefix(rawPathRest, "/")
	if rawPathRest == "" || strings.HasSuffix(rawPathRest, "/") || strings.Contains(rawPathRest, ".") {
		return nil, false
	}
	segs := strings.Split(rawPathRest, "/")
	once := make([]string, len(segs))
	for i, s := range segs {
		d, ok := pctDecodeOnce(s)
		if !ok {
			return nil, false
		}
		once[i] = d
	}
	n1 := strings.Join(once, ".")
	names = append(names, n1)
	// second reading: decoded twice
	twice := make([]string, len(once))
	okTwice := true
	for i, s := range once {
		d, ok := pctDecodeOnce(s)
		if !ok {
			okTwice = false
			break
		}
		twice[i] = d
	}
	if okTwice {
		if n2 := strings.Join(twice, "."); n2 != n1 {
			names = append(names, n2)
		}
	}
	return names, true
}

func cutQuery(n string) string {
	if i := strings.IndexByte(n, '?'); i >= 0 {
		return n[:i]
	}
	return n
}

// c14HTTP drives hostile request targets through net/http's request parser
// and the gateway's handler.
func c14HTTP(c *RunCtx) {
	r := NewRng(c.Seed ^ 0x14c)
	n := c.N(24000, 400000)
	type cfgT struct {
		api     string
		mapped  bool
		methods []string
	}
	cfgs := []cfgT{{"/api", false, nil}, {"/", true, nil}, {"/a/b/", true, nil}}
	var nontrivial int64
	for ci, cf := range cfgs {
		put, del, pat := "put", "delete", "patch"
		g, err := NewGate(GateOpts{Seed: uint64(ci), Cfg: func(cfg *server.Config) {
			cfg.APIPath = cf.api
			if cf.mapped {
				cfg.PUTMethod, cfg.DELETEMethod, cfg.PATCHMethod = &put, &del, &pat
			}
			if cf.api == "/" {
				cfg.WSPath = "/ws"
			}
		}})
		if err != nil {
			c.Inconclusive(err.Error())
			return
		}
		w := NewWorld(g.Bus)
		apiPath := cf.api
		if !strings.HasSuffix(apiPath, "/") {
			apiPath += "/"
		}
		methods := []string{"GET", "GET", "HEAD", "POST", "POST", "PUT", "DELETE", "PATCH"}
		for i := 0; i < n/len(cfgs); i++ {
			seed := r.U64()
			if !c.Mine(i) {
				continue
			}
			rr := NewRng(seed)
			method := methods[rr.Intn(len(methods))]
			rest := ""
			if rr.Chance(60) {
				rest = fmt.Sprintf("u%d/", i)
			}
			for k := rr.Intn(4); k >= 0; k-- {
				rest += httpAtoms[rr.Intn(len(httpAtoms))]
			}
			prefix := apiPath
			if rr.Chance(5) {
				prefix = "/other/"
			}
			target := prefix + rest
			c.WAL("C14 http %s %q", method, target)
			rawReq := method + " " + target + " HTTP/1.1\r\nHost: localhost\r\nContent-Length: 0\r\n\r\n"
			req, err := http.ReadRequest(bufio.NewReader(strings.NewReader(rawReq)))
			if err != nil {
				c.Stat("c14_http_rejected_by_parser", 1)
				continue // net/http answers 400 before any handler runs
			}
			n0 := g.Bus.NumReqs()
			rec := httptest.NewRecorder()
			hc := &HTTPCall{Method: method, URL: target, Rec: rec, done: make(chan struct{})}
			g.mu.Lock()
			g.HTTP = append(g.HTTP, hc)
			g.mu.Unlock()
			go func() {
				g.Svc.ServeHTTP(rec, req)
				hc.fin.Store(true)
				close(hc.done)
			}()
			// wait until it finished or reached the bus
			for !hc.Done() && g.Bus.NumReqs() == n0 {
				if err := g.Quiesce(QOpts{AllowOutstanding: true}); err != nil {
					break
				}
			}
			for k := 0; k < 100 && !hc.Done(); k++ {
				if err := g.Quiesce(QOpts{AllowOutstanding: true}); err != nil {
					c.Inconclusive("C14 http: " + err.Error())
					g.Stop()
					return
				}
				for _, rq := range g.Bus.Outstanding() {
					switch rq.Kind {
					case "access":
						g.Bus.Reply(rq, []byte(`{"result":{"get":true,"call":"*"}}`), nil)
					case "get":
						g.Bus.Reply(rq, []byte(`{"result":{"model":{"a":1}}}`), nil)
					default:
						g.Bus.Reply(rq, []byte(`{"result":{"ok":1}}`), nil)
					}
				}
			}
			hc.Wait()
			g.Quiesce(QOpts{})
			c.Eval(1)
			_ = w
			newReqs := g.Bus.Reqs()[n0:]
			wit := map[string]interface{}{"kind": "httptarget", "method": method, "target": target, "api": cf.api}
			for _, v := range g.Bus.Violations() {
				c.Violation(VReport{Prop: "C14", Sig: "subjectHygiene", Msg: fmt.Sprintf("%s %q: %s", method, trunc200([]byte(target)), v), Witness: wit})
			}
			g.Bus.mu.Lock()
			g.Bus.viol = nil
			g.Bus.mu.Unlock()
			// reference reading of the target
			rawPath, rawQuery := target, ""
			if q := strings.IndexByte(target, '?'); q >= 0 {
				rawPath, rawQuery = target[:q], target[q+1:]
			}
			_ = rawQuery
			valid := strings.HasPrefix(rawPath, apiPath)
			var names []string
			if valid {
				var ok bool
				names, ok = refHTTPNames(rawPath[len(apiPath):])
				valid = ok
			}
			action := ""
			var candidates []string
			if valid {
				for _, nm := range names {
					switch method {
					case "GET", "HEAD":
						if refNameOK(cutQuery(nm)) {
							candidates = append(candidates, "access."+cutQuery(nm), "get."+cutQuery(nm))
						}
					case "POST":
						// the last path segment is the method, what precedes it the
						// resource id (a decoded '?' in it starts its query, as for GET)
						if j := strings.LastIndexByte(nm, '.'); j > 0 {
							base, act := cutQuery(nm[:j]), nm[j+1:]
							if refNameOK(base) && refTokenValid(act) {
								candidates = append(candidates, "access."+base, "call."+base+"."+act)
							}
						}
					default:
						if cf.mapped && refNameOK(cutQuery(nm)) {
							action = strings.ToLower(method)
							candidates = append(candidates, "access."+cutQuery(nm), "call."+cutQuery(nm)+"."+action)
						}
					}
				}
			}
			exp := map[string]bool{}
			for _, s := range candidates {
				exp[s] = true
			}
			if len(candidates) == 0 {
				if len(newReqs) > 0 {
					c.Violation(VReport{Prop: "C14", Sig: "trafficOnInvalid", Msg: fmt.Sprintf("%s %q is not a valid resource path but produced request %q", method, trunc200([]byte(target)), newReqs[0].Subject), Witness: wit})
				}
				okStatus := rec.Code == 404 || (!cf.mapped && (method == "PUT" || method == "DELETE" || method == "PATCH") && rec.Code == 405)
				if !okStatus {
					c.Violation(VReport{Prop: "C14", Sig: "invalidNotRejected", Msg: fmt.Sprintf("%s %q answered %d, want 404", method, trunc200([]byte(target)), rec.Code), Witness: wit})
				}
				if strings.HasPrefix(rawPath, apiPath) {
					nontrivial++
				}
				continue
			}
			nontrivial++
			for _, rq := range newReqs {
				subj := rq.Subject
				if rq.CID != "" {
					// {cid} is expanded to the temporary connection's id towards services
					subj = strings.Replace(subj, rq.CID, "{cid}", -1)
				} else if rq.Kind == "get" {
					for _, o := range newReqs {
						if o.CID != "" {
							subj = strings.Replace(subj, o.CID, "{cid}", -1)
						}
					}
				}
				if !exp[rq.Subject] && !exp[subj] {
					c.Violation(VReport{Prop: "C14", Sig: "unexpectedSubject", Msg: fmt.Sprintf("%s %q produced request %q; admissible: %v", method, trunc200([]byte(target)), trunc200([]byte(rq.Subject)), candidates), Witness: wit})
				}
			}
			if i%2000 == 0 {
				c.Sample(map[string]interface{}{"layer": "http", "method": method, "target": trunc200([]byte(target)), "status": rec.Code, "requests": len(newReqs)})
			}
		}
		g.Stop()
	}
	c.Stat("c14_http_nontrivial", nontrivial)
	c.Rep.DistinctN += nontrivial
}

// c14Service checks that invalid resource ids supplied by services are not followed.
func c14Service(c *RunCtx) {
	if c.Shard != 0 {
		return
	}
	bad := []string{"", ".", "a..b", "a.*", "a.>", ".a", "a.", "a b", "a\tb", "aé", "?q", "a.?q", "a\x01"}
	good := []string{"a.b?", "a.b?x=*"}
	_ = good
	for _, rid := range bad {
		rb, _ := json.Marshal(rid)
		s := NewScript(HistCfg{Seed: 1})
		w := s.World()
		w.AddModel("t.a", map[string]Val{"x": P(1)})
		cl := s.Connect("1.2.3")
		// a reference with an invalid rid inside a get response
		s.Req(cl, "subscribe.t.ref", nil)
		s.Quiesce()
		s.ReplyRaw("access.t.ref", `{"result":{"get":true}}`)
		s.ReplyRaw("get.t.ref", `{"result":{"model":{"r":{"rid":`+string(rb)+`}}}}`)
		s.Quiesce()
		for _, rq := range s.Pending("") {
			c.Violation(VReport{Prop: "C14", Sig: "invalidReferenceFollowed", Msg: fmt.Sprintf("reference with invalid rid %q was followed: request %s", rid, rq.Subject)})
			s.h.g.Bus.Timeout(rq)
		}
		// a resource response with an invalid rid
		s.Req(cl, "call.t.a.m", nil)
		s.Quiesce()
		s.ReplyRaw("access.t.a", `{"result":{"get":true,"call":"*"}}`)
		s.ReplyRaw("call.t.a.m", `{"resource":{"rid":`+string(rb)+`}}`)
		s.Quiesce()
		for _, rq := range s.Pending("") {
			c.Violation(VReport{Prop: "C14", Sig: "invalidResourceResponseFollowed", Msg: fmt.Sprintf("resource response with invalid rid %q was followed: request %s", rid, rq.Subject)})
			s.h.g.Bus.Timeout(rq)
		}
		c.Eval(2)
		c.Distinct(Hash64("svc-rid", rid))
		for _, v := range s.h.g.Bus.Violations() {
			c.Violation(VReport{Prop: "C14", Sig: "subjectHygiene", Msg: v})
		}
		s.h.g.CloseAll()
		s.h.g.Stop()
	}
}
