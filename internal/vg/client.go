package vg

import (
	"context"
	"encoding/json"
	"fmt"
	"net/http"
	"net/http/httptest"
	"strings"
	"sync"
	"sync/atomic"
	"time"

	"github.com/gorilla/websocket"
	"github.com/posener/wstest"
)

// RErr is a RES error as seen by a client.
type RErr struct {
	Code    *string         `json:"code"`
	Message *string         `json:"message"`
	Data    json.RawMessage `json:"data,omitempty"`
}

// CodeStr returns the error code or "".
func (e *RErr) CodeStr() string {
	if e == nil || e.Code == nil {
		return ""
	}
	return *e.Code
}

// Frame is one frame received from the gateway.
type Frame struct {
	T      int64
	Raw    []byte
	Bad    bool // not a JSON object
	ID     *uint64
	HasID  bool
	Result json.RawMessage
	HasRes bool
	Error  *RErr
	Event  string // "<rid>.<event>" for event frames
	Data   json.RawMessage
	Fence  bool
}

// SentReq is a request frame a client sent.
type SentReq struct {
	T      int64
	ID     uint64
	Method string
	Params json.RawMessage
	Raw    []byte
	Fence  bool
	Tag    string // free for drivers
}

// WSClient is a WebSocket client connection with a complete frame log.
type WSClient struct {
	Idx     int
	Version string // "" = no version handshake (legacy 1.1.1)
	CID     string // learned by the harness from the messaging boundary
	clock   *Clock

	ws     *websocket.Conn
	mu     sync.Mutex
	cond   *sync.Cond
	frames []Frame
	sent   []SentReq
	fences map[uint64]bool
	nextID uint64
	closed bool // reader ended
	local  bool // closed by us
	seen   int  // frames already handed to monitors
	nrecv  atomic.Int64
	wmu    sync.Mutex
}

func parseFrame(raw []byte, t int64) Frame {
	f := Frame{T: t, Raw: raw}
	var m map[string]json.RawMessage
	if err := json.Unmarshal(raw, &m); err != nil {
		f.Bad = true
		return f
	}
	if v, ok := m["id"]; ok {
		var id uint64
		if json.Unmarshal(v, &id) == nil {
			f.ID = &id
			f.HasID = true
		}
	}
	if v, ok := m["result"]; ok {
		f.Result = v
		f.HasRes = true
	}
	if v, ok := m["error"]; ok {
		var e RErr
		if json.Unmarshal(v, &e) == nil {
			f.Error = &e
		} else {
			f.Error = &RErr{}
		}
	}
	if v, ok := m["event"]; ok {
		var s string
		if json.Unmarshal(v, &s) == nil {
			f.Event = s
		}
	}
	if v, ok := m["data"]; ok {
		f.Data = v
	}
	return f
}

func (c *WSClient) reader() {
	for {
		_, data, err := c.ws.ReadMessage()
		if err != nil {
			break
		}
		f := parseFrame(data, c.clock.Tick())
		c.mu.Lock()
		if f.HasID && c.fences[*f.ID] {
			f.Fence = true
		}
		c.frames = append(c.frames, f)
		c.nrecv.Add(1)
		c.cond.Broadcast()
		c.mu.Unlock()
	}
	c.mu.Lock()
	c.closed = true
	c.cond.Broadcast()
	c.mu.Unlock()
}

// SendRaw writes a raw text frame.
func (c *WSClient) SendRaw(data []byte) error {
	c.wmu.Lock()
	defer c.wmu.Unlock()
	return c.ws.WriteMessage(websocket.TextMessage, data)
}

// Request sends a well-formed request and returns its id.
func (c *WSClient) Request(method string, params interface{}, tag string) uint64 {
	c.mu.Lock()
	id := c.nextID
	c.nextID++
	var p json.RawMessage
	if params != nil {
		switch v := params.(type) {
		case json.RawMessage:
			p = v
		case []byte:
			p = v
		default:
			p, _ = json.Marshal(v)
		}
	}
	mb, _ := json.Marshal(method)
	var raw []byte
	if p != nil {
		raw = []byte(fmt.Sprintf(`{"id":%d,"method":%s,"params":%s}`, id, mb, p))
	} else {
		raw = []byte(fmt.Sprintf(`{"id":%d,"method":%s}`, id, mb))
	}
	sr := SentReq{T: c.clock.Tick(), ID: id, Method: method, Params: p, Raw: raw, Tag: tag}
	if tag == "fence" {
		sr.Fence = true
		c.fences[id] = true
	}
	c.sent = append(c.sent, sr)
	c.mu.Unlock()
	_ = c.SendRaw(raw)
	return id
}

// ReserveID allocates a request id for a hand-made frame and records it.
func (c *WSClient) ReserveID(method string, raw func(id uint64) []byte, tag string) uint64 {
	c.mu.Lock()
	id := c.nextID
	c.nextID++
	r := raw(id)
	c.sent = append(c.sent, SentReq{T: c.clock.Tick(), ID: id, Method: method, Raw: r, Tag: tag})
	c.mu.Unlock()
	_ = c.SendRaw(r)
	return id
}

// Fence sends a parameterless version request and waits for its reply (or the
// connection to end). It returns false if the connection ended first.
func (c *WSClient) Fence() bool {
	c.mu.Lock()
	if c.closed || c.local {
		c.mu.Unlock()
		return false
	}
	c.mu.Unlock()
	id := c.Request("version", nil, "fence")
	c.mu.Lock()
	defer c.mu.Unlock()
	for {
		for i := len(c.frames) - 1; i >= 0; i-- {
			f := &c.frames[i]
			if f.HasID && *f.ID == id {
				return true
			}
		}
		if c.closed {
			return false
		}
		c.cond.Wait()
	}
}

// WaitClosed blocks until the reader has ended.
func (c *WSClient) WaitClosed() {
	c.mu.Lock()
	for !c.closed {
		c.cond.Wait()
	}
	c.mu.Unlock()
}

// Close closes the client side of the connection.
func (c *WSClient) Close() {
	c.mu.Lock()
	c.local = true
	c.mu.Unlock()
	c.ws.Close()
}

// IsClosed reports whether the connection has ended (either side).
func (c *WSClient) IsClosed() bool {
	c.mu.Lock()
	defer c.mu.Unlock()
	return c.closed || c.local
}

// ReaderEnded reports whether the read loop has observed the end of the connection.
func (c *WSClient) ReaderEnded() bool {
	c.mu.Lock()
	defer c.mu.Unlock()
	return c.closed
}

// Frames returns a snapshot of all frames received.
func (c *WSClient) Frames() []Frame {
	c.mu.Lock()
	defer c.mu.Unlock()
	return append([]Frame(nil), c.frames...)
}

// NewFrames returns the frames received since the previous call.
func (c *WSClient) NewFrames() []Frame {
	c.mu.Lock()
	defer c.mu.Unlock()
	out := append([]Frame(nil), c.frames[c.seen:]...)
	c.seen = len(c.frames)
	return out
}

// NumFrames returns the number of frames received.
func (c *WSClient) NumFrames() int { return int(c.nrecv.Load()) }

// Sent returns a snapshot of all requests sent.
func (c *WSClient) Sent() []SentReq {
	c.mu.Lock()
	defer c.mu.Unlock()
	return append([]SentReq(nil), c.sent...)
}

// NonFenceFrames counts frames that are not fence replies.
func (c *WSClient) NonFenceFrames() int {
	c.mu.Lock()
	defer c.mu.Unlock()
	n := 0
	for i := range c.frames {
		if !c.frames[i].Fence {
			n++
		}
	}
	return n
}

// dialWS connects a client through the handler without a network.
func dialWS(h http.Handler, clock *Clock, idx int, header http.Header, url string) (*WSClient, *http.Response, error) {
	d := wstest.NewDialer(h)
	if url == "" {
		url = "ws://example.org/"
	}
	ws, resp, err := d.Dial(url, header)
	if err != nil {
		return nil, resp, err
	}
	c := &WSClient{Idx: idx, ws: ws, clock: clock, fences: map[uint64]bool{}}
	c.cond = sync.NewCond(&c.mu)
	go c.reader()
	return c, resp, nil
}

// HTTPCall is one HTTP request served by the gateway's handler.
type HTTPCall struct {
	Method string
	URL    string
	Body   []byte
	Header http.Header
	T0     int64
	T1     int64
	done   chan struct{}
	fin    atomic.Bool
	Rec    *httptest.ResponseRecorder
	CID    string
	Tag    string
	// Abort cancels the request's context, like net/http does when the HTTP
	// client goes away.
	Abort context.CancelFunc
}

// Done reports whether the handler has returned.
func (h *HTTPCall) Done() bool { return h.fin.Load() }

// Wait blocks until the handler has returned.
func (h *HTTPCall) Wait() { <-h.done }

func serveHTTP(handler http.Handler, clock *Clock, method, url string, body []byte, header http.Header) *HTTPCall {
	hc := &HTTPCall{Method: method, URL: url, Body: body, Header: header, done: make(chan struct{})}
	var rd *strings.Reader
	if body != nil {
		rd = strings.NewReader(string(body))
	}
	var req *http.Request
	var err error
	if rd != nil {
		req, err = http.NewRequest(method, url, rd)
	} else {
		req, err = http.NewRequest(method, url, nil)
	}
	if err != nil {
		// Not representable through net/http's client side; callers use raw mode.
		hc.Rec = httptest.NewRecorder()
		hc.Rec.Code = -1
		hc.fin.Store(true)
		close(hc.done)
		return hc
	}
	ctx, cancel := context.WithCancel(context.Background())
	req = req.WithContext(ctx)
	hc.Abort = cancel
	req.RequestURI = req.URL.RequestURI()
	if req.Body == nil {
		req.Body = http.NoBody // a server-side request always has a body
	}
	for k, v := range header {
		req.Header[k] = v
	}
	hc.Rec = httptest.NewRecorder()
	hc.T0 = clock.Tick()
	go func() {
		handler.ServeHTTP(hc.Rec, req)
		hc.T1 = clock.Tick()
		hc.fin.Store(true)
		close(hc.done)
	}()
	return hc
}

// dialProbe reports whether the handler accepts a new WebSocket connection. A
// handler that returns without upgrading (or does not answer within the
// handshake timeout) refuses it.
func dialProbe(h http.Handler) bool {
	d := wstest.NewDialer(h)
	d.HandshakeTimeout = 1500 * time.Millisecond
	ws, _, err := d.Dial("ws://example.org/", nil)
	if err != nil {
		return false
	}
	ws.Close()
	return true
}
