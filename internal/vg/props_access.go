package vg

import (
	"bytes"
	"encoding/json"
	"fmt"
	"net/http"
	"strings"

	"github.com/resgateio/resgate/server"
)

const secretMarker = "S3CR3T"

// accessOutcome enumerates how an access request is answered.
type accessOutcome struct {
	Name  string
	Grant bool
	Apply func(s *Script, r *BusReq)
	Code  string // expected error code ("" = any error)
}

var accessOutcomes = []accessOutcome{
	{"grant", true, func(s *Script, r *BusReq) {
		s.h.g.Bus.Reply(r, []byte(`{"result":{"get":true,"call":"*"}}`), nil)
	}, ""},
	{"getFalse", false, func(s *Script, r *BusReq) {
		s.h.g.Bus.Reply(r, []byte(`{"result":{"get":false,"call":"*"}}`), nil)
	}, "system.accessDenied"},
	{"emptyResult", false, func(s *Script, r *BusReq) { s.h.g.Bus.Reply(r, []byte(`{"result":{}}`), nil) }, "system.accessDenied"},
	{"missingResult", false, func(s *Script, r *BusReq) { s.h.g.Bus.Reply(r, []byte(`{}`), nil) }, "system.internalError"},
	{"resError", false, func(s *Script, r *BusReq) {
		s.h.g.Bus.Reply(r, []byte(`{"error":{"code":"t.noAccess","message":"No access"}}`), nil)
	}, "t.noAccess"},
	{"accessDeniedError", false, func(s *Script, r *BusReq) {
		s.h.g.Bus.Reply(r, []byte(`{"error":{"code":"system.accessDenied","message":"Access denied"}}`), nil)
	}, "system.accessDenied"},
	{"timeout", false, func(s *Script, r *BusReq) { s.h.g.Bus.Timeout(r) }, "system.timeout"},
	{"noResponders", false, func(s *Script, r *BusReq) { s.h.g.Bus.NoResponders(r) }, "system.notFound"},
	{"invalidJSON", false, func(s *Script, r *BusReq) { s.h.g.Bus.Reply(r, []byte(`{"result":`), nil) }, "system.internalError"},
}

type c04Case struct {
	Kind     string `json:"kind"` // subscribe get new call auth httpget
	Outcome  string `json:"outcome"`
	GetFirst bool   `json:"get_first"`
	Token    bool   `json:"token"`
	Double   bool   `json:"double"`
	Version  string `json:"version"`
}

// runC04Case runs one enumerated access-gating case.
func runC04Case(c *RunCtx, cs c04Case, out accessOutcome) {
	wit := map[string]interface{}{"kind": "c04case", "case": cs}
	fail := func(sig, format string, a ...interface{}) {
		c.Violation(VReport{Prop: "C04", Sig: sig, Msg: fmt.Sprintf("%+v: ", cs) + fmt.Sprintf(format, a...), Witness: wit})
	}
	s := NewScript(HistCfg{Seed: 1, Pct: 10})
	if !s.ok {
		c.Inconclusive("gate")
		return
	}
	defer func() {
		s.h.g.CloseAll()
		s.h.g.Stop()
	}()
	w := s.World()
	w.AddModel("t.a", map[string]Val{"secret": P(secretMarker + "-a"), "child": Ref("t.b")})
	w.AddModel("t.b", map[string]Val{"secret": P(secretMarker + "-b")})
	w.AddModel("t.caller", map[string]Val{"x": P(1)})
	g := s.h.g
	tokenJSON := "null"
	var cl *WSClient
	if cs.Kind != "httpget" {
		cl = s.Connect(cs.Version)
		if cl == nil {
			return
		}
		s.Settle()
		if cs.Token {
			tokenJSON = `{"user":"u1"}`
			g.Bus.Event("conn."+cl.CID+".token", []byte(`{"token":`+tokenJSON+`}`), nil)
			s.Settle()
		}
	}
	// issue the request(s)
	var hc *HTTPCall
	switch cs.Kind {
	case "subscribe":
		s.Req(cl, "subscribe.t.a", nil)
		if cs.Double {
			s.Req(cl, "subscribe.t.a", nil)
		}
	case "get":
		s.Req(cl, "get.t.a", nil)
		if cs.Double {
			s.Req(cl, "subscribe.t.a", nil)
		}
	case "new":
		s.Req(cl, "new.t.caller", map[string]string{"t": "t.a"})
	case "call":
		s.Req(cl, "call.t.caller.goto", map[string]string{"t": "t.a"})
	case "auth":
		s.Req(cl, "auth.t.caller.goto", map[string]string{"t": "t.a"})
	case "httpget":
		hc = g.HTTPDo("GET", "http://localhost/api/t/a", nil, nil, true)
	}
	// drive: answer everything except the access request under test (and, when
	// the get goes first, answer the gets before it)
	var accessReqs []*BusReq
	for guard := 0; guard < 50; guard++ {
		s.Quiesce()
		if !s.ok {
			c.Inconclusive(fmt.Sprintf("C04 %+v: %s", cs, s.res.Inconclusive))
			return
		}
		outst := g.Bus.Outstanding()
		if len(outst) == 0 {
			break
		}
		progressed := false
		for _, r := range outst {
			switch {
			case r.Kind == "access" && r.Name == "t.a":
				found := false
				for _, a := range accessReqs {
					if a == r {
						found = true
					}
				}
				if !found {
					accessReqs = append(accessReqs, r)
				}
			case r.Kind == "access":
				g.Bus.Reply(r, []byte(`{"result":{"get":true,"call":"*"}}`), nil)
				progressed = true
			case r.Kind == "get":
				if cs.GetFirst {
					name := r.Name
					g.Bus.Reply(r, nil, func() []byte { return w.GetResponse(name) })
					progressed = true
				}
			case r.Kind == "call" || r.Kind == "auth":
				g.Bus.Reply(r, []byte(`{"resource":{"rid":"t.a"}}`), nil)
				progressed = true
			}
		}
		if !progressed {
			break
		}
	}
	if len(accessReqs) == 0 {
		fail("noAccessRequest", "no access request for t.a was made")
		return
	}
	for _, a := range accessReqs {
		got := "null"
		if len(a.Token) > 0 {
			got = canonJSON(string(a.Token))
		}
		if got != canonJSON(tokenJSON) {
			fail("accessToken", "access request carries token %s, connection's token is %s", got, tokenJSON)
		}
		if cl != nil && a.CID != cl.CID {
			fail("accessCID", "access request carries cid %s, requester is %s", a.CID, cl.CID)
		}
	}
	// before the verdict nothing of t.a may have reached the client
	if cl != nil {
		for _, f := range cl.Frames() {
			if bytes.Contains(f.Raw, []byte(secretMarker)) {
				fail("dataBeforeVerdict", "resource data delivered before the access answer: %s", trunc200(f.Raw))
			}
		}
	}
	if hc != nil && hc.Done() {
		fail("dataBeforeVerdict", "HTTP request finished before the access answer: %d %s", hc.Rec.Code, trunc200(hc.Rec.Body.Bytes()))
	}
	// the verdict
	for _, a := range accessReqs {
		out.Apply(s, a)
	}
	// everything else
	for guard := 0; guard < 50; guard++ {
		s.Quiesce()
		outst := g.Bus.Outstanding()
		if len(outst) == 0 {
			break
		}
		for _, r := range outst {
			switch r.Kind {
			case "access":
				if r.Name == "t.a" {
					out.Apply(s, r)
				} else {
					g.Bus.Reply(r, []byte(`{"result":{"get":true,"call":"*"}}`), nil)
				}
			case "get":
				name := r.Name
				g.Bus.Reply(r, nil, func() []byte { return w.GetResponse(name) })
			default:
				g.Bus.Reply(r, []byte(`{"resource":{"rid":"t.a"}}`), nil)
			}
		}
	}
	if hc != nil {
		hc.Wait()
	}
	if err := g.Quiesce(QOpts{}); err != nil {
		c.Inconclusive(fmt.Sprintf("C04 %+v: %v", cs, err))
		return
	}
	// verdict checks
	if hc != nil {
		body := hc.Rec.Body.Bytes()
		if out.Grant {
			if hc.Rec.Code != 200 || !bytes.Contains(body, []byte(secretMarker+"-a")) {
				fail("grantNotServed", "HTTP GET answered %d %s although access was granted", hc.Rec.Code, trunc200(body))
			}
		} else {
			if bytes.Contains(body, []byte(secretMarker)) {
				fail("dataWithoutGrant", "HTTP GET body contains resource data although access outcome was %s: %s", out.Name, trunc200(body))
			}
			if hc.Rec.Code < 400 {
				fail("noErrorOnDenial", "HTTP GET answered %d although access outcome was %s", hc.Rec.Code, out.Name)
			}
		}
		return
	}
	frames := cl.Frames()
	sent := cl.Sent()
	leaked := false
	for _, f := range frames {
		if bytes.Contains(f.Raw, []byte(secretMarker)) {
			leaked = true
			if !out.Grant {
				fail("dataWithoutGrant", "frame contains resource data although access outcome was %s: %s", out.Name, trunc200(f.Raw))
			}
		}
	}
	if out.Grant && !leaked {
		fail("grantNotServed", "no frame delivered the resource although access was granted")
	}
	// every request answered; on denial with the error (or an errors entry)
	for _, sr := range sent {
		if sr.Fence || sr.Method == "version" {
			continue
		}
		var resp *Frame
		for i := range frames {
			if frames[i].HasID && *frames[i].ID == sr.ID {
				resp = &frames[i]
			}
		}
		if resp == nil {
			fail("noResponse", "request %s got no response", sr.Method)
			continue
		}
		if out.Grant {
			if resp.Error != nil {
				fail("errorOnGrant", "request %s answered with error %s although access was granted", sr.Method, resp.Raw)
			}
			continue
		}
		action, _, _ := methodParts(sr.Method)
		legacyCall := (action == "call" || action == "auth") && ParseVersion(cs.Version) < Ver120
		switch {
		case legacyCall:
			// below 1.2.0 a resource response is a bare {rid}: nothing to deny
		case action == "subscribe" || action == "get":
			if resp.Error == nil {
				fail("noErrorOnDenial", "request %s answered %s although access outcome was %s", sr.Method, trunc200(resp.Raw), out.Name)
			} else if out.Code != "" && resp.Error.CodeStr() != out.Code {
				fail("wrongErrorCode", "request %s answered error %s, expected %s", sr.Method, resp.Error.CodeStr(), out.Code)
			}
		default:
			var res struct {
				RID    string                     `json:"rid"`
				Errors map[string]json.RawMessage `json:"errors"`
			}
			if resp.Error != nil || json.Unmarshal(resp.Result, &res) != nil || res.Errors["t.a"] == nil {
				fail("noErrorEntryOnDenial", "request %s answered %s; expected a result with an errors entry for t.a", sr.Method, trunc200(resp.Raw))
			}
		}
	}
	// no direct subscription may be left after a denial
	for _, snap := range g.Svc.VerifConns() {
		if snap.CID != cl.CID || !snap.Reachable {
			continue
		}
		hs, ok := snap.Subs["t.a"]
		if !out.Grant && ok && hs.Direct > 0 {
			legacy := (cs.Kind == "call" || cs.Kind == "auth") && ParseVersion(cs.Version) < Ver120
			if !legacy {
				fail("subscriptionLeftAfterDenial", "gateway holds %d direct subscriptions on t.a after access outcome %s", hs.Direct, out.Name)
			}
		}
	}
	if !out.Grant {
		// the follow-up unsubscribe must fail
		id := cl.Request("unsubscribe.t.a", nil, "")
		g.Quiesce(QOpts{})
		for _, f := range cl.Frames() {
			if f.HasID && *f.ID == id && f.Error == nil {
				legacy := (cs.Kind == "call" || cs.Kind == "auth") && ParseVersion(cs.Version) < Ver120
				if !legacy {
					fail("unsubscribeSucceedsAfterDenial", "unsubscribe.t.a succeeded after access outcome %s", out.Name)
				}
			}
		}
	}
}

// c04Enumerate runs the complete enumeration of access gating cases.
func c04Enumerate(c *RunCtx) {
	idx := 0
	for _, kind := range []string{"subscribe", "get", "new", "call", "auth", "httpget"} {
		for _, out := range accessOutcomes {
			for _, getFirst := range []bool{false, true} {
				for _, tok := range []bool{false, true} {
					for _, dbl := range []bool{false, true} {
						for _, ver := range []string{"1.2.3", ""} {
							if dbl && kind != "subscribe" && kind != "get" {
								continue
							}
							if kind == "httpget" && (tok || ver == "") {
								continue
							}
							if (kind == "call" || kind == "auth") && ver == "" {
								continue // below 1.2.0 a resource response is a bare {rid}: no access to t.a
							}
							idx++
							if !c.Mine(idx) {
								continue
							}
							cs := c04Case{Kind: kind, Outcome: out.Name, GetFirst: getFirst, Token: tok, Double: dbl, Version: ver}
							c.WAL("C04 case %+v", cs)
							runC04Case(c, cs, out)
							c.Eval(1)
							c.Rep.DistinctN++
							if idx%40 == 1 {
								c.Sample(cs)
							}
						}
					}
				}
			}
		}
	}
	c.Rep.Exhaustive = true
}

// refCanCallSystem: which call lists x methods reach the service.
func c05System(c *RunCtx) {
	lists := []string{"*", "", "a", "b", "a,b", "ab", "a,ab", "aa,b", ",a", "a,", "*,a", "a,*", "new", "set,new"}
	methods := []string{"a", "b", "ab", "new"}
	idx := 0
	for _, transport := range []string{"ws", "http"} {
		for _, list := range lists {
			for _, m := range methods {
				idx++
				if !c.Mine(idx) {
					continue
				}
				c.WAL("C05 system %s list=%q method=%q", transport, list, m)
				c05Case(c, transport, list, m)
				c.Eval(1)
				c.Rep.DistinctN++
			}
		}
	}
}

func c05Case(c *RunCtx, transport, list, m string) {
	wit := map[string]interface{}{"kind": "c05case", "transport": transport, "list": list, "method": m}
	fail := func(sig, format string, a ...interface{}) {
		c.Violation(VReport{Prop: "C05", Sig: sig, Msg: fmt.Sprintf("[%s call=%q method=%q] ", transport, list, m) + fmt.Sprintf(format, a...), Witness: wit})
	}
	s := NewScript(HistCfg{Seed: 1})
	defer func() {
		s.h.g.CloseAll()
		s.h.g.Stop()
	}()
	g := s.h.g
	lb, _ := json.Marshal(list)
	accessReply := []byte(`{"result":{"get":true,"call":` + string(lb) + `}}`)
	want := refCanCall(list, m)
	drive := func(done func() bool) (calls int, accessN int) {
		for guard := 0; guard < 30; guard++ {
			s.Quiesce()
			outst := g.Bus.Outstanding()
			if len(outst) == 0 || (done != nil && done()) {
				break
			}
			for _, r := range outst {
				switch r.Kind {
				case "access":
					accessN++
					g.Bus.Reply(r, accessReply, nil)
				case "call":
					calls++
					g.Bus.Reply(r, []byte(`{"result":{"ok":true}}`), nil)
				case "get":
					g.Bus.Reply(r, []byte(`{"result":{"model":{"x":1}}}`), nil)
				case "auth":
					g.Bus.Reply(r, []byte(`{"result":{"ok":true}}`), nil)
				}
			}
		}
		return
	}
	if transport == "http" {
		method := "POST"
		target := "http://localhost/api/t/a/" + m
		hc := g.HTTPDo(method, target, []byte(`{"p":1}`), nil, true)
		calls, _ := drive(hc.Done)
		hc.Wait()
		g.Quiesce(QOpts{})
		if want && (calls != 1 || hc.Rec.Code != 200) {
			fail("grantedCallNotForwarded", "HTTP POST answered %d with %d call requests although the list grants the method", hc.Rec.Code, calls)
		}
		if !want && (calls != 0 || hc.Rec.Code != 401) {
			fail("ungrantedCallForwarded", "HTTP POST answered %d with %d call requests although the list does not grant the method", hc.Rec.Code, calls)
		}
		return
	}
	cl := s.Connect("1.2.3")
	if cl == nil {
		return
	}
	s.Settle()
	// (1) call on a resource that is not subscribed
	n0 := g.Bus.NumReqs()
	method := "call.t.a." + m
	if m == "new" {
		method = "new.t.a"
	}
	id := cl.Request(method, map[string]int{"p": 1}, "")
	calls, _ := drive(nil)
	g.Quiesce(QOpts{})
	check := func(phase string, id uint64, calls int) {
		var resp *Frame
		fr := cl.Frames()
		for i := range fr {
			if fr[i].HasID && *fr[i].ID == id {
				resp = &fr[i]
			}
		}
		if resp == nil {
			fail("noResponse", "%s: no response", phase)
			return
		}
		if want {
			if calls != 1 {
				fail("grantedCallNotForwarded", "%s: %d call requests reached the service, want 1 (response %s)", phase, calls, trunc200(resp.Raw))
			}
		} else {
			if calls != 0 {
				fail("ungrantedCallForwarded", "%s: the call reached the service although the list does not grant it", phase)
			}
			if resp.Error == nil || resp.Error.CodeStr() != "system.accessDenied" {
				fail("wrongDenial", "%s: answered %s, want system.accessDenied", phase, trunc200(resp.Raw))
			}
		}
	}
	check("unsubscribed", id, calls)
	for _, r := range g.Bus.Reqs()[n0:] {
		if r.CID != cl.CID {
			fail("wrongCID", "request %s carries cid %q", r.Subject, r.CID)
		}
	}
	// (2) call on a subscribed resource: cached verdict, then reaccess
	cl.Request("subscribe.t.a", nil, "")
	drive(nil)
	g.Quiesce(QOpts{})
	id = cl.Request(method, nil, "")
	calls, accessN := drive(nil)
	g.Quiesce(QOpts{})
	check("subscribed(cached verdict)", id, calls)
	_ = accessN
	// (3) auth is never access checked
	n1 := g.Bus.NumReqs()
	cl.Request("auth.t.a."+m, nil, "")
	drive(nil)
	g.Quiesce(QOpts{})
	sawAuth := false
	for _, r := range g.Bus.Reqs()[n1:] {
		if r.Kind == "access" {
			fail("accessForAuth", "an access request (%s) was made for an auth request", r.Subject)
		}
		if r.Kind == "auth" {
			sawAuth = true
		}
	}
	if !sawAuth {
		fail("authNotForwarded", "auth.t.a.%s was not forwarded", m)
	}
	// (4) after a reaccess event the cached verdict must not be used: flip the list
	old := accessReply
	flipped := "*"
	if want {
		flipped = ""
	}
	fb, _ := json.Marshal(flipped)
	accessReply = []byte(`{"result":{"get":true,"call":` + string(fb) + `}}`)
	g.Bus.Event("event.t.a.reaccess", nil, nil)
	drive(nil)
	g.Quiesce(QOpts{})
	want = !want
	id = cl.Request(method, nil, "")
	calls, _ = drive(nil)
	g.Quiesce(QOpts{})
	check("after reaccess (verdict flipped)", id, calls)
	accessReply = old
	// (5) token change: the next access/call must carry the new token
	want = refCanCall(list, m)
	g.Bus.Event("conn."+cl.CID+".token", []byte(`{"token":{"v":1}}`), nil)
	drive(nil)
	g.Quiesce(QOpts{})
	g.Bus.Event("conn."+cl.CID+".token", []byte(`{"token":{"v":2}}`), nil)
	drive(nil)
	g.Quiesce(QOpts{})
	n2 := g.Bus.NumReqs()
	id = cl.Request(method, nil, "")
	calls, _ = drive(nil)
	g.Quiesce(QOpts{})
	check("after token change", id, calls)
	for _, r := range g.Bus.Reqs()[n2:] {
		if (r.Kind == "access" || r.Kind == "call") && canonJSON(string(r.Token)) != `{"v":2}` {
			fail("staleToken", "request %s after the token change carries token %s, want {\"v\":2}", r.Subject, r.Token)
		}
	}
}

// c05TokenRace: token events that arrive while the access request of a call,
// new or auth request is outstanding. The request forwarded once the access
// answer arrives must carry the token most recently set (the first token of a
// connection does not invalidate the outstanding access answer, later ones
// trigger a re-check: either way nothing may carry the older token).
func c05TokenRace(c *RunCtx) {
	idx := 0
	for _, op := range []string{"call", "new", "callSubscribed", "callIndirect"} {
		for _, initial := range []bool{false, true} {
			for _, sets := range []int{1, 2} {
				idx++
				if !c.Mine(idx) {
					continue
				}
				cs := map[string]interface{}{"kind": "c05tokenrace", "op": op, "initial_token": initial, "sets": sets}
				c.WAL("C05 tokenrace %v", cs)
				s := NewScript(HistCfg{Seed: 5, Pct: 15})
				if !s.ok {
					c.Inconclusive("C05 tokenrace: " + s.res.Inconclusive)
					continue
				}
				g := s.Gate()
				w := s.World()
				w.AddModel("t.leaf", map[string]Val{"v": P(1)})
				w.AddModel("t.a", map[string]Val{"x": P(1), "child": Ref("t.leaf")})
				cl := s.Connect("1.2.3")
				if cl == nil {
					g.Stop()
					continue
				}
				if initial {
					s.Token(cl, `{"user":"u0"}`, "")
					s.Settle()
				}
				target := "t.a"
				switch op {
				case "callSubscribed":
					s.Req(cl, "subscribe.t.a", nil)
					s.Settle()
					// drop the cached verdict so that the call needs a new access answer
					w.Reaccess("t.a")
					s.Quiesce()
				case "callIndirect":
					s.Req(cl, "subscribe.t.a", nil)
					s.Settle()
					target = "t.leaf"
				}
				n0 := g.Bus.NumReqs()
				if op == "new" {
					s.Req(cl, "new."+target, map[string]string{"t": "t.leaf"})
				} else {
					s.Req(cl, "call."+target+".m", map[string]int{"x": 1})
				}
				s.Quiesce()
				for k := 1; k <= sets; k++ {
					s.Token(cl, fmt.Sprintf(`{"user":"u%d"}`, k), "")
					s.Quiesce()
				}
				last := fmt.Sprintf(`{"user":"u%d"}`, sets)
				nTok := g.Bus.NumReqs()
				s.Settle()
				for _, r := range g.Bus.Reqs()[nTok:] {
					if (r.Kind == "access" || r.Kind == "call" || r.Kind == "auth") && r.CID == cl.CID && canonJSON(string(r.Token)) != canonJSON(last) {
						s.Fail("C05", "staleToken", "request %s sent after the token was set to %s (gateway idle in between) carries token %s", r.Subject, last, r.Token)
					}
				}
				forwarded := 0
				for _, r := range g.Bus.Reqs()[n0:] {
					if r.Kind == "call" {
						forwarded++
					}
				}
				c.Stat("c05_tokenrace_forwarded", int64(forwarded))
				res := s.Finish()
				g.CloseAll()
				g.Stop()
				c.Eval(1)
				c.Rep.DistinctN++
				if res.Inconclusive != "" {
					c.Inconclusive(fmt.Sprintf("C05 tokenrace %v: %s", cs, res.Inconclusive))
				}
				seen := map[string]bool{}
				for _, v := range res.Viol {
					if seen[v.Prop+v.Sig+v.RID] {
						continue
					}
					seen[v.Prop+v.Sig+v.RID] = true
					c.Violation(VReport{Prop: v.Prop, Sig: v.Sig, RID: v.RID, Msg: fmt.Sprintf("%v: %s", cs, v.Msg), Witness: cs})
				}
			}
		}
	}
}

type c06Case struct {
	Trigger string `json:"trigger"` // token reaccess reset
	Verdict string `json:"verdict"` // outcome name
	Held    string `json:"held"`    // direct both
	Conns   int    `json:"conns"`
	Pos     string `json:"pos"` // idle loading pending
	Repeat  bool   `json:"repeat"`
}

// runC06Case: revocation on token change, reaccess event and system reset.
func runC06Case(c *RunCtx, cs c06Case, out accessOutcome) {
	wit := map[string]interface{}{"kind": "c06case", "case": cs}
	fail := func(sig, format string, a ...interface{}) {
		c.Violation(VReport{Prop: "C06", Sig: sig, Msg: fmt.Sprintf("%+v: ", cs) + fmt.Sprintf(format, a...), Witness: wit})
	}
	s := NewScript(HistCfg{Seed: 1, Pct: 10})
	if !s.ok {
		return
	}
	defer func() {
		s.h.g.CloseAll()
		s.h.g.Stop()
	}()
	g := s.h.g
	w := s.World()
	w.AddModel("t.a", map[string]Val{"x": P(1)})
	w.AddModel("t.p", map[string]Val{"a": Ref("t.a")})
	w.AddModel("t.slow", map[string]Val{"s": P(1)})
	var cls []*WSClient
	for i := 0; i < cs.Conns; i++ {
		cl := s.Connect("1.2.3")
		if cl == nil {
			return
		}
		cls = append(cls, cl)
	}
	s.Settle()
	grant := []byte(`{"result":{"get":true,"call":"*"}}`)
	answerAll := func(except func(r *BusReq) bool) {
		for guard := 0; guard < 40; guard++ {
			s.Quiesce()
			progressed := false
			for _, r := range g.Bus.Outstanding() {
				if except != nil && except(r) {
					continue
				}
				switch r.Kind {
				case "access":
					g.Bus.Reply(r, grant, nil)
				case "get":
					name := r.Name
					g.Bus.Reply(r, nil, func() []byte { return w.GetResponse(name) })
				default:
					g.Bus.Reply(r, []byte(`{"result":null}`), nil)
				}
				progressed = true
			}
			if !progressed {
				return
			}
		}
	}
	// initial tokens (a token event on a connection without token does not re-check)
	for i, cl := range cls {
		g.Bus.Event("conn."+cl.CID+".token", []byte(fmt.Sprintf(`{"token":{"u":%d,"v":0},"tid":"t%d"}`, i, i)), nil)
	}
	answerAll(nil)
	for _, cl := range cls {
		s.Req(cl, "subscribe.t.a", nil)
		if cs.Held == "both" {
			s.Req(cl, "subscribe.t.p", nil)
		}
	}
	answerAll(nil)
	victim := cls[0]
	// position of the trigger
	switch cs.Pos {
	case "loading":
		// the victim's subscription is busy loading a new reference
		w.Change("t.a", map[string]*Val{"slow": vp(Ref("t.slow"))})
		s.Quiesce()
	case "pending":
		// an earlier re-check is still pending
		w.Reaccess("t.a")
		s.Quiesce()
	}
	nBefore := g.Bus.NumReqs()
	framesBefore := map[*WSClient]int{}
	for _, cl := range cls {
		framesBefore[cl] = len(cl.Frames())
	}
	// the trigger
	curTok := `{"u":0,"v":0}`
	fire := func(n int) {
		switch cs.Trigger {
		case "token":
			curTok = fmt.Sprintf(`{"u":0,"v":%d}`, n)
			g.Bus.Event("conn."+victim.CID+".token", []byte(`{"token":`+curTok+`,"tid":"t0"}`), nil)
		case "reaccess":
			w.Reaccess("t.a")
		case "reset":
			w.SystemReset(nil, []string{"t.*"})
		}
	}
	fire(1)
	if cs.Repeat {
		fire(2)
	}
	// events that reach the gateway after the trigger
	ev1, _ := w.Custom("t.a", "custom")
	ev2, _ := w.Custom("t.a", "custom")
	// everything but the re-check(s) of t.a is answered; then silence is required
	isRecheck := func(r *BusReq) bool { return r.Kind == "access" && r.Name == "t.a" && r.ID >= nBefore }
	answerAll(func(r *BusReq) bool {
		return isRecheck(r) || (cs.Pos == "pending" && r.Kind == "access" && r.Name == "t.a")
	})
	s.Quiesce()
	if cs.Pos == "pending" {
		// release the earlier re-checks (grant): the trigger's own re-check
		// was deferred behind them
		for _, r := range g.Bus.Outstanding() {
			if r.Kind == "access" && r.Name == "t.a" && r.ID < nBefore {
				g.Bus.Reply(r, grant, nil)
			}
		}
		answerAll(func(r *BusReq) bool { return r.Kind == "access" && r.Name == "t.a" })
		s.Quiesce()
	}
	var rechecks []*BusReq
	for _, r := range g.Bus.Outstanding() {
		if r.Kind == "access" && r.Name == "t.a" && r.ID >= nBefore {
			rechecks = append(rechecks, r)
		}
	}
	affected := map[string]bool{victim.CID: true}
	if cs.Trigger != "token" {
		for _, cl := range cls {
			affected[cl.CID] = true
		}
	}
	seen := map[string]bool{}
	for _, r := range rechecks {
		seen[r.CID] = true
		if r.CID == victim.CID && cs.Trigger == "token" && canonJSON(string(r.Token)) != canonJSON(curTok) {
			if !cs.Repeat {
				fail("recheckToken", "re-check carries token %s, current token is %s", r.Token, curTok)
			}
		}
	}
	for cid := range affected {
		if !seen[cid] {
			fail("noRecheck", "no access re-request for connection %s after the %s trigger", cid, cs.Trigger)
		}
	}
	for _, cl := range cls {
		if !affected[cl.CID] && seen[cl.CID] {
			fail("recheckForBystander", "access re-request for connection %s which the trigger does not concern", cl.CID)
		}
	}
	// silence: no event handed in after the trigger may be visible yet
	for _, cl := range cls {
		if !affected[cl.CID] {
			continue
		}
		for _, f := range cl.Frames()[framesBefore[cl]:] {
			if f.Event == "t.a.custom" {
				var d struct {
					Seq int `json:"seq"`
				}
				json.Unmarshal(f.Data, &d)
				if d.Seq == ev1.Seq || d.Seq == ev2.Seq {
					fail("eventBeforeVerdict", "event #%d (handed in after the trigger) delivered to connection %d before the new verdict", d.Seq, cl.Idx)
				}
			}
		}
	}
	// verdict for the victim, grant for the others
	for _, r := range g.Bus.Outstanding() {
		if r.Kind == "access" && r.Name == "t.a" {
			if r.CID == victim.CID {
				out.Apply(s, r)
			} else {
				g.Bus.Reply(r, grant, nil)
			}
		}
	}
	for guard := 0; guard < 40; guard++ {
		s.Quiesce()
		outst := g.Bus.Outstanding()
		if len(outst) == 0 {
			break
		}
		for _, r := range outst {
			switch {
			case r.Kind == "access" && r.Name == "t.a" && r.CID == victim.CID:
				out.Apply(s, r)
			case r.Kind == "access":
				g.Bus.Reply(r, grant, nil)
			case r.Kind == "get":
				name := r.Name
				g.Bus.Reply(r, nil, func() []byte { return w.GetResponse(name) })
			default:
				g.Bus.Reply(r, []byte(`{"result":null}`), nil)
			}
		}
	}
	ev3, _ := w.Custom("t.a", "custom")
	if err := g.Quiesce(QOpts{}); err != nil {
		c.Inconclusive(fmt.Sprintf("C06 %+v: %v", cs, err))
		return
	}
	// after the verdict
	for _, cl := range cls {
		var seqs []int
		unsub := false
		var reason string
		for _, f := range cl.Frames()[framesBefore[cl]:] {
			if f.Event == "t.a.custom" {
				var d struct {
					Seq int `json:"seq"`
				}
				json.Unmarshal(f.Data, &d)
				seqs = append(seqs, d.Seq)
			}
			if f.Event == "t.a.unsubscribe" {
				unsub = true
				var d struct {
					Reason RErr `json:"reason"`
				}
				json.Unmarshal(f.Data, &d)
				reason = d.Reason.CodeStr()
			}
		}
		isVictim := cl == victim
		revoked := isVictim && !out.Grant
		if revoked {
			if !unsub {
				fail("noUnsubscribeEvent", "verdict %s but connection %d received no unsubscribe event", out.Name, cl.Idx)
			} else if out.Code != "" && reason != out.Code {
				fail("unsubscribeReason", "unsubscribe event reason %q, expected %q", reason, out.Code)
			}
			for _, snap := range g.Svc.VerifConns() {
				if snap.CID == cl.CID && snap.Reachable {
					if hs, ok := snap.Subs["t.a"]; ok && hs.Direct > 0 {
						fail("directLeftAfterRevocation", "gateway still holds %d direct subscriptions on t.a", hs.Direct)
					}
				}
			}
			if cs.Held == "direct" {
				for _, q := range seqs {
					if q == ev3.Seq {
						fail("eventAfterRevocation", "event #%d delivered after the revocation although the client no longer holds t.a", q)
					}
				}
			}
		} else {
			if unsub {
				fail("unsubscribeOnGrant", "connection %d received an unsubscribe event although its verdict was a grant", cl.Idx)
			}
			// all events in order
			want := []int{ev1.Seq, ev2.Seq, ev3.Seq}
			j := 0
			for _, q := range seqs {
				if j < len(want) && q == want[j] {
					j++
				}
			}
			if j != len(want) {
				fail("eventsLostAfterGrant", "connection %d received custom events %v after the trigger, expected %v in order", cl.Idx, seqs, want)
			}
		}
	}
}

func c06Enumerate(c *RunCtx) {
	idx := 0
	for _, trig := range []string{"token", "reaccess", "reset"} {
		for _, out := range accessOutcomes {
			for _, held := range []string{"direct", "both"} {
				for _, conns := range []int{1, 3} {
					for _, pos := range []string{"idle", "loading", "pending"} {
						for _, rep := range []bool{false, true} {
							idx++
							if !c.Mine(idx) {
								continue
							}
							cs := c06Case{Trigger: trig, Verdict: out.Name, Held: held, Conns: conns, Pos: pos, Repeat: rep}
							c.WAL("C06 case %+v", cs)
							runC06Case(c, cs, out)
							c.Eval(1)
							c.Rep.DistinctN++
							if idx%60 == 1 {
								c.Sample(cs)
							}
						}
					}
				}
			}
		}
	}
	c.Rep.Exhaustive = true
}

var _ = http.MethodGet
var _ = strings.TrimSpace
var _ = server.Version
