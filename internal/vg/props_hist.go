package vg

import (
	"encoding/json"
	"fmt"
	"strings"
)

// histWitness is the replayable witness of a history violation.
type histWitness struct {
	Kind   string           `json:"kind"`
	Cfg    HistCfg          `json:"cfg"`
	Steps  []string         `json:"steps"`
	Frames map[int][]string `json:"frames,omitempty"`
	BusLog []string         `json:"buslog,omitempty"`
	ErrLog []string         `json:"errlog,omitempty"`
}

func init() {
	RegisterReplayer("hist", func(w json.RawMessage) (bool, string) {
		var hw struct {
			Cfg HistCfg `json:"cfg"`
		}
		if json.Unmarshal(w, &hw) != nil {
			return false, "bad witness"
		}
		res := RunHistory(hw.Cfg)
		if len(res.Viol) > 0 {
			s := ""
			for _, v := range res.Viol {
				s += v.String() + "\n"
			}
			for _, n := range res.Notes {
				s += "NOTE " + n.Site + " " + n.Detail + "\n"
			}
			return true, s
		}
		return false, ""
	})
}

// runHistories executes n generated histories (sharded) and reports.
func runHistories(c *RunCtx, n int, family string, cfgFn func(i int, r *Rng) HistCfg) {
	base := NewRng(c.Seed*7919 + Hash64(c.Prop, family))
	seeds := make([]uint64, n)
	for i := range seeds {
		seeds[i] = base.U64()
	}
	for i := 0; i < n; i++ {
		if !c.Mine(i) {
			continue
		}
		r := NewRng(seeds[i])
		cfg := cfgFn(i, r)
		cfg.Seed = seeds[i]
		b, _ := json.Marshal(cfg)
		c.WAL("history family=%s i=%d cfg=%s", family, i, b)
		res := RunHistory(cfg)
		c.Eval(1)
		c.Interleaving(res.Sig)
		c.Stat("histories."+family, 1)
		if res.Stats["event_frames"] > 0 && res.Stats["c01_compared"] > 0 {
			c.Distinct(res.Sig)
		}
		for k, v := range res.Stats {
			c.Stat(k, v)
		}
		c.Counters(res.Counters)
		if res.Inconclusive != "" {
			c.Inconclusive(fmt.Sprintf("history family=%s seed=%d: %s", family, cfg.Seed, res.Inconclusive))
		}
		for _, v := range res.Viol {
			if c.Prop == "C11" && v.Prop == "C09" && res.Stats["disconnects"] > 0 {
				switch v.Sig {
				case "subscriberOfDeadConn", "entryLeft", "eventSubLeft", "countMismatch", "gaugeNotZero", "negativeCount":
					// cache uses of a disconnected connection not released exactly
					v.Prop = "C11"
				}
			}
			c.Violation(VReport{Prop: v.Prop, Sig: v.Sig, RID: v.RID, Msg: fmt.Sprintf("[%s seed=%d conn=%d] %s", family, cfg.Seed, v.Conn, v.Msg),
				Witness: histWitness{Kind: "hist", Cfg: cfg, Steps: res.Steps, Frames: res.Frames, BusLog: res.BusLog, ErrLog: res.ErrLog}})
		}
		if i < 3*c.Shards && len(res.Steps) > 0 {
			steps := res.Steps
			if len(steps) > 25 {
				steps = steps[:25]
			}
			c.Sample(map[string]interface{}{"family": family, "seed": cfg.Seed, "mode": cfg.Mode, "conns": cfg.Conns, "first_steps": steps})
		}
		if i%40 == 0 {
			c.Flush(false)
		}
	}
}

var versionMixes = [][]string{
	{"1.2.3"}, {"1.2.3", ""}, {"1.2.3", "1.2.0", ""}, {"", "1.2.1"}, {"1.2.0"}, {"1.1.1", "1.2.3"},
}

// generalCfg is the general mixed workload shared by several properties.
func generalCfg(i int, r *Rng) HistCfg {
	cfg := HistCfg{
		Conns:        1 + r.Intn(4),
		Versions:     versionMixes[r.Intn(len(versionMixes))],
		NRes:         3 + r.Intn(6),
		PColl:        20 + r.Intn(30),
		PErr:         r.Intn(12),
		PRef:         15 + r.Intn(30),
		Steps:        20 + r.Intn(25),
		Mode:         "seq",
		Burst:        3 + r.Intn(6),
		Pct:          []int{0, 15, 40}[r.Intn(3)],
		AvoidF:       true,
		AnswerOrder:  []string{"random", "oldest", "newest"}[r.Intn(3)],
		UnsubDelayMs: []int{0, 0, 2}[r.Intn(3)],
	}
	if r.Chance(50) {
		cfg.Mode = "burst"
	}
	if r.Chance(30) {
		cfg.GetOutcome = [4]int{85, 7, 4, 4}
	}
	if r.Chance(25) {
		cfg.RefThrottle = 1 + r.Intn(3)
	}
	return cfg
}

func sharedcollCfg(i int, r *Rng) HistCfg {
	cfg := generalCfg(i, r)
	cfg.Conns = 2 + r.Intn(3)
	cfg.NRes = 3 + r.Intn(3)
	cfg.PColl = 60 + r.Intn(30)
	cfg.PRef = 30 + r.Intn(30)
	cfg.PErr = 0
	cfg.Mode = "burst"
	cfg.W = map[string]int{"sub": 25, "unsub": 8, "get": 4, "add": 14, "remove": 22, "change": 6, "custom": 2, "answer": 8, "quiesce": 2}
	return cfg
}

func refgraphCfg(i int, r *Rng) HistCfg {
	cfg := generalCfg(i, r)
	cfg.PRef = 35 + r.Intn(30)
	cfg.NRes = 3 + r.Intn(4)
	cfg.W = map[string]int{"sub": 22, "unsub": 18, "get": 3, "callres": 3, "change": 22, "add": 12, "remove": 10, "custom": 3, "answer": 12, "quiesce": 3}
	return cfg
}

func requestsCfg(i int, r *Rng) HistCfg {
	cfg := generalCfg(i, r)
	cfg.Mode = "burst"
	cfg.Burst = 4 + r.Intn(8)
	cfg.GetOutcome = [4]int{70, 12, 9, 9}
	cfg.W = map[string]int{"sub": 20, "unsub": 14, "get": 12, "call": 8, "callres": 8, "new": 5, "auth": 4, "change": 6, "add": 3, "remove": 3, "custom": 3, "delete": 1, "reaccess": 3, "answer": 14, "quiesce": 2}
	return cfg
}

func accountingCfg(i int, r *Rng) HistCfg {
	cfg := generalCfg(i, r)
	cfg.Mode = "seq"
	cfg.NRes = 2 + r.Intn(4)
	cfg.GetOutcome = [4]int{70, 12, 9, 9}
	cfg.AccessOutcome = [4]int{76, 10, 8, 6}
	cfg.W = map[string]int{"sub": 24, "unsub": 24, "get": 10, "call": 3, "callres": 10, "new": 5, "auth": 5, "change": 4, "add": 2, "remove": 2, "delete": 1, "reaccess": 2}
	return cfg
}

func eventdenseCfg(i int, r *Rng) HistCfg {
	cfg := generalCfg(i, r)
	cfg.Conns = 1 + r.Intn(4)
	cfg.NRes = 2 + r.Intn(4)
	cfg.Steps = 30 + r.Intn(30)
	cfg.Pct = []int{15, 40, 60}[r.Intn(3)]
	cfg.W = map[string]int{"sub": 14, "unsub": 8, "get": 2, "callres": 2, "custom": 30, "change": 16, "add": 8, "remove": 5, "reaccess": 5, "delete": 1, "answer": 10, "quiesce": 2}
	return cfg
}

func lifecycleCfg(i int, r *Rng) HistCfg {
	cfg := generalCfg(i, r)
	cfg.Conns = 1 + r.Intn(6)
	cfg.NRes = 2 + r.Intn(5)
	cfg.Metrics = true
	cfg.UnsubDelayMs = []int{0, 0, 1, 5}[r.Intn(4)]
	cfg.GetOutcome = [4]int{70, 12, 9, 9}
	cfg.SitePct = map[string]int{"cache.evict": 60}
	cfg.W = map[string]int{"sub": 22, "unsub": 18, "get": 8, "call": 6, "callres": 4, "change": 6, "add": 3, "remove": 3, "custom": 3, "delete": 3, "recreate": 2, "disconnect": 4, "answer": 10, "quiesce": 3}
	return cfg
}

func isolationCfg(i int, r *Rng) HistCfg {
	cfg := generalCfg(i, r)
	cfg.Conns = 2 + r.Intn(5)
	cfg.CIDTags = true
	cfg.NRes = 4 + r.Intn(5)
	cfg.W = map[string]int{"sub": 20, "unsub": 10, "get": 6, "call": 8, "callres": 5, "auth": 5, "new": 2, "token": 12, "tokenreset": 6, "change": 8, "add": 4, "remove": 3, "custom": 6, "reaccess": 3, "answer": 10, "quiesce": 3}
	return cfg
}

func disconnectsCfg(i int, r *Rng) HistCfg {
	cfg := generalCfg(i, r)
	cfg.Conns = 2 + r.Intn(4)
	cfg.Mode = "burst"
	cfg.Burst = 3 + r.Intn(10)
	cfg.GetOutcome = [4]int{75, 10, 8, 7}
	cfg.Metrics = true
	cfg.W = map[string]int{"sub": 22, "unsub": 8, "get": 8, "call": 6, "callres": 6, "new": 2, "auth": 2, "change": 8, "add": 4, "remove": 3, "custom": 5, "reaccess": 3, "token": 3, "disconnect": 10, "answer": 8, "quiesce": 2}
	return cfg
}

// histFamilies lists the history generators by family name. Every monitor runs
// in every history, so each history-based check also runs a share of the other
// families: a property violated only under another property's workload would
// otherwise be counted there and reported nowhere.
var histFamilies = []struct {
	Name string
	Cfg  func(i int, r *Rng) HistCfg
}{
	{"general", generalCfg}, {"sharedcoll", sharedcollCfg}, {"refgraph", refgraphCfg}, {"requests", requestsCfg},
	{"accounting", accountingCfg}, {"eventdense", eventdenseCfg}, {"lifecycle", lifecycleCfg}, {"isolation", isolationCfg},
	{"disconnects", disconnectsCfg}, {"gating", gatingCfg},
}

// runCross runs n histories of every family except the named ones.
func runCross(c *RunCtx, n int, except ...string) {
	if c.Race {
		return
	}
	for _, f := range histFamilies {
		skip := false
		for _, e := range except {
			if e == f.Name {
				skip = true
			}
		}
		if !skip {
			runHistories(c, n, f.Name, f.Cfg)
		}
	}
}

func init() {
	Register("C01", func(c *RunCtx) {
		n := c.N(1600, 40000)
		if c.Race {
			n = c.N(200, 6000)
		}
		runHistories(c, n, "general", generalCfg)
		// collections shared by several connections, modified while some of
		// the subscribers still wait for referenced resources to load: every
		// subscriber's load-time snapshot must stay what it was when taken
		runHistories(c, n/4, "sharedcoll", sharedcollCfg)
		runCross(c, n/10, "general", "sharedcoll")
		// query resources: subscribers of one normalised query, joined by a new
		// alias after events were processed, all converge (the C13 cases with
		// their convergence verdicts attributed to C01)
		if !c.Race {
			c.Remap = func(v *VReport) {
				if v.Prop == "C13" && strings.HasPrefix(v.Sig, "C01.") {
					v.Prop = "C01"
					v.Sig = strings.TrimPrefix(v.Sig, "C01.") + ".query"
				}
			}
			c01QueryCases(c)
			c.Remap = nil
		}
	})
	Register("C02", func(c *RunCtx) {
		n := c.N(1600, 40000)
		if c.Race {
			n = c.N(200, 4000)
		}
		runHistories(c, n, "refgraph", refgraphCfg)
		runCross(c, n/10, "refgraph")
	})
	Register("C07", func(c *RunCtx) {
		n := c.N(1600, 40000)
		runHistories(c, n, "requests", requestsCfg)
		runCross(c, n/10, "requests")
	})
	Register("C08", func(c *RunCtx) {
		n := c.N(1600, 40000)
		runHistories(c, n, "accounting", accountingCfg)
		// the access-gating workload (token changes, reaccess events, denials
		// and errors as access answers): revocation and requests in progress
		// release the same direct subscriptions
		runHistories(c, n/4, "gating", gatingCfg)
		runCross(c, n/10, "accounting", "gating")
		if !c.Race {
			c08Limit(c)
		}
	})
	Register("C03", func(c *RunCtx) {
		n := c.N(1600, 40000)
		if c.Race {
			n = c.N(200, 4000)
		}
		runHistories(c, n, "eventdense", eventdenseCfg)
		runCross(c, n/10, "eventdense")
	})
	Register("C09", func(c *RunCtx) {
		n := c.N(1600, 40000)
		if c.Race {
			n = c.N(200, 4000)
		}
		runHistories(c, n, "lifecycle", lifecycleCfg)
		runCross(c, n/10, "lifecycle")
		if !c.Race {
			c09LongNames(c)
		}
	})
	Register("C10", func(c *RunCtx) {
		n := c.N(1600, 40000)
		runHistories(c, n, "isolation", isolationCfg)
		runCross(c, n/10, "isolation")
		if !c.Race {
			c10CIDQuery(c)
		}
	})
	Register("C11", func(c *RunCtx) {
		n := c.N(1600, 40000)
		if c.Race {
			n = c.N(200, 4000)
		}
		runHistories(c, n, "disconnects", disconnectsCfg)
		runCross(c, n/10, "disconnects")
		if !c.Race {
			c11HTTPAbort(c)
		}
	})
}
