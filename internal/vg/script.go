package vg

import (
	"fmt"
	"strings"
)

// Script is a hand-written scenario running on the history machinery (same
// gateway, world, reference clients and monitors as generated histories).
type Script struct {
	h   *histRun
	res *HistResult
	ok  bool
}

// NewScript starts a gateway for a scripted scenario.
func NewScript(cfg HistCfg) *Script {
	if cfg.Mode == "" {
		cfg.Mode = "seq"
	}
	h, res := newHistRun(cfg)
	return &Script{h: h, res: res, ok: h != nil}
}

// World returns the scenario's world.
func (s *Script) World() *World { return s.h.w }

// Gate returns the gateway under test.
func (s *Script) Gate() *Gate { return s.h.g }

// Connect adds a client connection.
func (s *Script) Connect(ver string) *WSClient {
	c := s.h.connect(ver)
	if c == nil {
		s.ok = false
	}
	return c
}

// Req sends a client request.
func (s *Script) Req(c *WSClient, method string, params interface{}) uint64 {
	s.h.stepNo++
	s.h.logf("conn=%d %s %v", c.Idx, method, params)
	return s.h.send(c, method, params)
}

// Pending returns outstanding service requests whose subject has the prefix.
func (s *Script) Pending(prefix string) []*BusReq {
	var out []*BusReq
	for _, r := range s.h.g.Bus.Outstanding() {
		if strings.HasPrefix(r.Subject, prefix) {
			out = append(out, r)
		}
	}
	return out
}

// Quiesce reaches partial quiescence (outstanding requests allowed).
func (s *Script) Quiesce() {
	if err := s.h.g.Quiesce(QOpts{AllowOutstanding: true}); err != nil {
		s.res.Inconclusive = err.Error()
		s.ok = false
	} else {
		s.h.ppoints = append(s.h.ppoints, s.h.g.Clock.Tick())
		s.h.checkCountersAll()
	}
}

// Answer answers the oldest outstanding request on the subject like the world would.
func (s *Script) Answer(subject string) bool {
	s.Quiesce()
	for _, r := range s.h.g.Bus.Outstanding() {
		if r.Subject == subject {
			s.h.answer(r)
			return true
		}
	}
	s.h.logf("answer %s: not outstanding", subject)
	return false
}

// AnswerExcept answers everything outstanding except the given subjects, to a fixpoint.
func (s *Script) AnswerExcept(except ...string) {
	for {
		s.Quiesce()
		var pick *BusReq
		for _, r := range s.h.g.Bus.Outstanding() {
			skip := false
			for _, e := range except {
				if r.Subject == e {
					skip = true
				}
			}
			if !skip {
				pick = r
				break
			}
		}
		if pick == nil {
			return
		}
		s.h.answer(pick)
	}
}

// Settle answers everything and runs the quiescent-point monitors.
func (s *Script) Settle() {
	if !s.ok {
		return
	}
	if s.h.settle() {
		s.h.checkQuiescent(false)
	} else {
		s.ok = false
	}
}

// Logf adds a line to the step log.
func (s *Script) Logf(format string, a ...interface{}) { s.h.logf(format, a...) }

// Fail records a script-level violation.
func (s *Script) Fail(prop, sig, format string, a ...interface{}) {
	s.h.viol(Viol{Prop: prop, Sig: sig, T: s.h.g.Clock.Now(), Msg: fmt.Sprintf(format, a...)})
}

// RC returns the reference client of a connection.
func (s *Script) RC(c *WSClient) *RefClient { return s.h.rcs[c] }

// Finish runs the final checks and returns the result.
func (s *Script) Finish() *HistResult {
	if s.h == nil {
		return s.res
	}
	return s.h.finish(s.ok)
}

// TimeoutReq completes the oldest outstanding request on the subject with a timeout.
func (s *Script) TimeoutReq(subject string) bool {
	s.Quiesce()
	for _, r := range s.h.g.Bus.Outstanding() {
		if r.Subject == subject {
			s.h.logf("answer %s timeout", subject)
			s.h.g.Bus.Timeout(r)
			return true
		}
	}
	return false
}

// ReplyRaw answers the oldest outstanding request on the subject with a raw payload.
func (s *Script) ReplyRaw(subject, payload string) bool {
	s.Quiesce()
	for _, r := range s.h.g.Bus.Outstanding() {
		if r.Subject == subject {
			s.h.logf("answer %s raw %s", subject, payload)
			s.h.g.Bus.Reply(r, []byte(payload), nil)
			return true
		}
	}
	return false
}

// Token publishes a connection token event and records it for the token monitors.
func (s *Script) Token(c *WSClient, tokenJSON, tid string) {
	if s.h.tokens == nil {
		s.h.tokens = map[int][]tokenSet{}
	}
	s.h.tokens[c.Idx] = append(s.h.tokens[c.Idx], tokenSet{T: s.h.g.Clock.Tick(), Token: canonJSON(tokenJSON), TID: tid})
	p := `{"token":` + tokenJSON
	if tid != "" {
		p += `,"tid":"` + tid + `"`
	}
	p += "}"
	s.h.logf("conn=%d token %s", c.Idx, p)
	s.h.g.Bus.Event("conn."+c.CID+".token", []byte(p), nil)
}
