package vg

import (
	"encoding/json"
	"fmt"
	"strconv"
	"strings"
)

// Query resources: the resource name owns a dataset; the query "w=N[&...]"
// selects the first N items. The service normalises a query by dropping
// everything after the first '&'.

// QueryState is the query side of a world resource.
type QueryState struct {
	Dataset  []Val
	rounds   map[string]*queryRound // inbox subject -> round
	nround   int
	Desynced map[string]bool // normalised query -> excluded from convergence until re-fetched
}

type queryRound struct {
	Before, After []Val
}

// NormalizeQuery is the service's query normalisation.
func NormalizeQuery(q string) string {
	if i := strings.IndexByte(q, '&'); i >= 0 {
		q = q[:i]
	}
	return q
}

// DeriveQuery computes the collection a normalised query selects.
func DeriveQuery(q string, data []Val) []Val {
	n := len(data)
	if strings.HasPrefix(q, "w=") {
		if k, err := strconv.Atoi(q[2:]); err == nil && k >= 0 && k < n {
			n = k
		}
	}
	return append([]Val(nil), data[:n]...)
}

// AddQueryColl defines a query collection resource.
func (w *World) AddQueryColl(name string, data []Val) *Res {
	r := &Res{Name: name, Kind: RColl, C: data}
	r.Q = &QueryState{Dataset: data, rounds: map[string]*queryRound{}, Desynced: map[string]bool{}}
	w.mu.Lock()
	w.Res[name] = r
	w.mu.Unlock()
	return r
}

// QueryGetResponse renders the get response for a query resource.
func (w *World) QueryGetResponse(name, rawQuery string) []byte {
	w.mu.Lock()
	defer w.mu.Unlock()
	r := w.Res[name]
	if r == nil || r.Q == nil {
		return []byte(`{"error":` + ErrJSON("system.notFound", "Not found") + `}`)
	}
	nq := NormalizeQuery(rawQuery)
	nb, _ := json.Marshal(nq)
	delete(r.Q.Desynced, nq)
	return []byte(`{"result":{"collection":` + collServiceJSON(DeriveQuery(nq, r.Q.Dataset)) + `,"query":` + string(nb) + `}}`)
}

// QueryClientState is what a client subscribed with the raw query should hold.
func (w *World) QueryClientState(name, rawQuery string, ver int) []interface{} {
	w.mu.Lock()
	defer w.mu.Unlock()
	r := w.Res[name]
	if r == nil || r.Q == nil {
		return nil
	}
	vals := DeriveQuery(NormalizeQuery(rawQuery), r.Q.Dataset)
	out := make([]interface{}, len(vals))
	for i, v := range vals {
		out[i] = v.ClientValue(ver)
	}
	return out
}

// MutateQuery changes the dataset and publishes a query event; it returns the
// inbox subject the gateway must send its query requests to.
func (w *World) MutateQuery(name string, f func(data []Val) []Val) string {
	var subject string
	w.Bus.Event("event."+name+".query", nil, func() ([]byte, bool) {
		w.mu.Lock()
		defer w.mu.Unlock()
		r := w.Res[name]
		if r == nil || r.Q == nil {
			return nil, false
		}
		before := append([]Val(nil), r.Q.Dataset...)
		after := f(append([]Val(nil), r.Q.Dataset...))
		r.Q.Dataset = after
		r.C = after
		r.Q.nround++
		subject = fmt.Sprintf("_QEVENT.%s.%d", strings.Replace(name, ".", "_", -1), r.Q.nround)
		r.Q.rounds[subject] = &queryRound{Before: before, After: after}
		r.Stream = append(r.Stream, StreamEv{Seq: len(r.Stream), Kind: "query", Payload: subject, T1: w.Bus.Clock.Tick(), State: true})
		return []byte(`{"subject":"` + subject + `"}`), true
	})
	return subject
}

// diffEvents derives add/remove events turning a into b (independent of the
// gateway's LCS: common prefix and suffix, the middle replaced).
func diffEvents(a, b []Val) string {
	p := 0
	for p < len(a) && p < len(b) && a[p] == b[p] {
		p++
	}
	s := 0
	for s < len(a)-p && s < len(b)-p && a[len(a)-1-s] == b[len(b)-1-s] {
		s++
	}
	var evs []string
	for i := len(a) - s - 1; i >= p; i-- {
		evs = append(evs, fmt.Sprintf(`{"event":"remove","data":{"idx":%d}}`, i))
	}
	for i := p; i < len(b)-s; i++ {
		evs = append(evs, fmt.Sprintf(`{"event":"add","data":{"idx":%d,"value":%s}}`, i, b[i].ServiceJSON()))
	}
	return "[" + strings.Join(evs, ",") + "]"
}

// QueryRequestAnswer computes the answer to a query request of a round.
// how: events | collection | error | notfound
func (w *World) QueryRequestAnswer(subject string, payload []byte, how string) []byte {
	var p struct {
		Query string `json:"query"`
	}
	json.Unmarshal(payload, &p)
	w.mu.Lock()
	defer w.mu.Unlock()
	for _, r := range w.Res {
		if r.Q == nil {
			continue
		}
		rd := r.Q.rounds[subject]
		if rd == nil {
			continue
		}
		nq := p.Query
		switch how {
		case "events":
			return []byte(`{"result":{"events":` + diffEvents(DeriveQuery(nq, rd.Before), DeriveQuery(nq, rd.After)) + `}}`)
		case "collection":
			return []byte(`{"result":{"collection":` + collServiceJSON(DeriveQuery(nq, rd.After)) + `}}`)
		case "notfound":
			r.Q.Desynced[nq] = true
			return []byte(`{"error":` + ErrJSON("system.notFound", "Not found") + `}`)
		default:
			r.Q.Desynced[nq] = true
			return []byte(`{"error":` + ErrJSON("t.queryFailed", "Query failed") + `}`)
		}
	}
	return []byte(`{"error":` + ErrJSON("system.notFound", "Not found") + `}`)
}

// MarkDesynced excludes a normalised query from convergence checks.
func (w *World) MarkDesynced(name, nq string) {
	w.mu.Lock()
	if r := w.Res[name]; r != nil && r.Q != nil {
		r.Q.Desynced[nq] = true
	}
	w.mu.Unlock()
}

// QueryDesynced reports whether a raw query of a resource is currently excluded.
func (w *World) QueryDesynced(name, rawQuery string) bool {
	w.mu.Lock()
	defer w.mu.Unlock()
	r := w.Res[name]
	return r != nil && r.Q != nil && r.Q.Desynced[NormalizeQuery(rawQuery)]
}
