package vg

import (
	"fmt"
	"strings"
	"time"
)

// c11HTTPCase is one HTTP request whose client goes away after a number of
// the service requests made on its behalf have been answered.
type c11HTTPCase struct {
	Method     string `json:"method"`
	Path       string `json:"path"`
	HeaderAuth bool   `json:"header_auth"`
	WithTID    bool   `json:"with_tid"`
	AbortAfter int    `json:"abort_after"` // answers delivered before the client goes away
	LateOrder  string `json:"late_order"`  // oldest newest: order of the answers arriving late
	Denied     bool   `json:"denied"`      // access denied (only matters if reached)
	// Trigger is what happens after AbortAfter answers: "" the client goes
	// away; "reaccess" / "reset": an access re-check trigger for the resource
	// arrives while the request is still being served (the client stays)
	Trigger string `json:"trigger,omitempty"`
}

// c11HTTPAbort enumerates HTTP requests aborted by their client at every
// point of their progress. The temporary connection behind the request must be
// released completely once the gateway is done with it: no connection left in
// the service, no conn.<cid> subscription, no cache use, no place in the
// token-reset fan-out, no request carrying its cid afterwards.
func c11HTTPAbort(c *RunCtx) {
	type target struct{ method, path string }
	targets := []target{{"GET", "/api/t/m"}, {"GET", "/api/t/c"}, {"POST", "/api/t/m/act"}, {"GET", "/api/t/leaf"}}
	var cases []c11HTTPCase
	for _, t := range targets {
		for _, ha := range []int{0, 1, 2} {
			for k := 0; k <= 5; k++ {
				for _, lo := range []string{"oldest", "newest"} {
					cases = append(cases, c11HTTPCase{Method: t.method, Path: t.path, HeaderAuth: ha > 0, WithTID: ha == 2, AbortAfter: k, LateOrder: lo})
				}
			}
		}
	}
	for _, t := range targets {
		for _, trig := range []string{"reaccess", "reset"} {
			for k := 0; k <= 3; k++ {
				for _, lo := range []string{"oldest", "newest"} {
					cases = append(cases, c11HTTPCase{Method: t.method, Path: t.path, AbortAfter: k, LateOrder: lo, Trigger: trig})
				}
			}
		}
	}
	cases = append(cases, c11HTTPCase{Method: "GET", Path: "/api/t/m", AbortAfter: 0, LateOrder: "oldest", Denied: true},
		c11HTTPCase{Method: "POST", Path: "/api/t/m/act", AbortAfter: 1, LateOrder: "oldest", Denied: true})
	for i, cs := range cases {
		if !c.Mine(i) {
			continue
		}
		c.WAL("c11http %+v", cs)
		runC11HTTPCase(c, cs)
		c.Eval(1)
		c.Distinct(Hash64(fmt.Sprintf("%+v", cs)))
		c.Stat("httpabort_cases", 1)
	}
}

func runC11HTTPCase(c *RunCtx, cs c11HTTPCase) {
	wit := map[string]interface{}{"kind": "c11http", "case": cs}
	fail := func(sig, format string, a ...interface{}) {
		c.Violation(VReport{Prop: "C11", Sig: sig, Msg: fmt.Sprintf("%+v: ", cs) + fmt.Sprintf(format, a...), Witness: wit})
	}
	cfg := HistCfg{Seed: 11, Pct: 15, Metrics: true}
	if cs.HeaderAuth {
		cfg.HTTPHeaderAuth = "vault.hdr"
	}
	s := NewScript(cfg)
	if !s.ok {
		c.Inconclusive("C11 http: " + s.res.Inconclusive)
		return
	}
	g := s.Gate()
	defer func() {
		g.CloseAll()
		g.Stop()
	}()
	w := s.World()
	w.AddModel("t.leaf", map[string]Val{"v": P(1)})
	w.AddModel("t.leaf2", map[string]Val{"v": P(2)})
	w.AddModel("t.m", map[string]Val{"a": P("x"), "child": Ref("t.leaf")})
	w.AddColl("t.c", []Val{Ref("t.leaf"), Ref("t.leaf2"), P("p")})
	// a bystander connection that must be left alone
	by := s.Connect("1.2.3")
	if by == nil {
		return
	}
	s.Req(by, "subscribe.t.leaf2", nil)
	s.Settle()
	if !s.ok {
		c.Inconclusive("C11 http: " + s.res.Inconclusive)
		return
	}
	n0 := g.Bus.NumReqs()
	var body []byte
	if cs.Method == "POST" {
		body = []byte(`{"x":1}`)
	}
	hc := g.HTTPDo(cs.Method, "http://gw"+cs.Path, body, nil, true)
	s.Quiesce()
	cid := ""
	tokenSent := false
	answerOne := func(order string) bool {
		out := g.Bus.Outstanding()
		if len(out) == 0 {
			return false
		}
		r := out[0]
		if order == "newest" {
			r = out[len(out)-1]
		}
		if r.CID != "" && r.CID != by.CID {
			cid = r.CID
		}
		switch {
		case r.Kind == "auth" && r.Method == "hdr":
			if cs.WithTID && !tokenSent && r.CID != "" {
				tokenSent = true
				g.Bus.Event("conn."+r.CID+".token", []byte(`{"token":{"user":"h"},"tid":"httptid"}`), nil)
			}
			g.Bus.Reply(r, []byte(`{"result":null}`), nil)
		case r.Kind == "access" && cs.Denied:
			g.Bus.Reply(r, []byte(`{"result":{"get":false}}`), nil)
		default:
			s.h.answer(r)
		}
		s.Quiesce()
		return true
	}
	for k := 0; k < cs.AbortAfter && !hc.Done(); k++ {
		if !answerOne("oldest") {
			break
		}
	}
	for _, r := range g.Bus.Reqs()[n0:] {
		if r.CID != "" && r.CID != by.CID {
			cid = r.CID
		}
	}
	aborted := !hc.Done()
	switch {
	case !aborted:
	case cs.Trigger == "reaccess":
		w.Reaccess("t.m")
		w.Reaccess("t.c")
		w.Reaccess("t.leaf")
		c.Stat("httpabort_trigger_midway", 1)
	case cs.Trigger == "reset":
		w.SystemReset(nil, []string{"t.>"})
		c.Stat("httpabort_trigger_midway", 1)
	default:
		hc.Abort()
		c.Stat("httpabort_aborted_midway", 1)
	}
	s.Quiesce()
	// the late answers
	for i := 0; i < 40; i++ {
		if !answerOne(cs.LateOrder) {
			break
		}
	}
	deadline := time.Now().Add(g.Watchdog)
	for !hc.Done() && time.Now().Before(deadline) {
		time.Sleep(time.Millisecond)
	}
	if !hc.Done() {
		fail("httpNeverReturned", "the handler did not return although every service request was answered")
		return
	}
	s.Settle()
	if !s.ok {
		c.Inconclusive("C11 http: " + s.res.Inconclusive)
		return
	}
	if cid == "" {
		c.Stat("httpabort_no_cid_seen", 1)
	}
	nDone := g.Bus.NumReqs()
	// released completely
	if n := g.Svc.VerifConnCount(); n != 1 {
		fail("tempConnLeft", "the service holds %d connections after the aborted request finished, only the bystander is open (cids %v)", n, g.Svc.VerifConnIDs())
	}
	if cid != "" && g.Bus.HasSub("conn."+cid) {
		fail("connSubLeft", "subscription conn.%s of the temporary connection is still active", cid)
	}
	for _, sub := range g.Bus.ActiveSubs() {
		if strings.HasPrefix(sub, "conn.") && sub != "conn."+by.CID {
			fail("connSubLeft", "subscription %s does not belong to an open connection", sub)
		}
	}
	// no place in the token-reset fan-out, no later request on its behalf
	g.Bus.Event("system.tokenReset", []byte(`{"tids":["httptid"],"subject":"auth.vault.renew"}`), nil)
	s.Quiesce()
	w.Change("t.leaf", map[string]*Val{"v": vp(P(7))})
	w.Reaccess("t.m")
	s.Quiesce()
	for _, r := range g.Bus.Reqs()[nDone:] {
		if cid != "" && r.CID == cid {
			fail("requestForDeadConn", "request %s carries the cid of the finished temporary connection", r.Subject)
		}
		if r.Subject == "auth.vault.renew" {
			fail("tokenResetForDeadConn", "token reset for the tid of the finished temporary connection produced request %s (cid %s)", r.Subject, r.CID)
		}
	}
	s.Settle()
	// cache uses: the bystander's only; the generic end-of-history monitors
	// (cache structure, gauges, final eviction) run in Finish
	res := s.Finish()
	for _, v := range res.Viol {
		prop := v.Prop
		if prop == "C09" {
			prop = "C11"
		}
		c.Violation(VReport{Prop: prop, Sig: v.Sig, RID: v.RID, Msg: fmt.Sprintf("%+v: %s", cs, v.Msg), Witness: wit})
	}
	c.Counters(res.Counters)
}
