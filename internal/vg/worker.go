package vg

import (
	"encoding/json"
	"fmt"
	"os"
	"sort"
	"strconv"
	"strings"
	"time"
)

// VReport is a violation as reported by a worker.
type VReport struct {
	Prop    string      `json:"prop"`
	Sig     string      `json:"sig"`
	RID     string      `json:"rid,omitempty"`
	Msg     string      `json:"msg"`
	Witness interface{} `json:"witness,omitempty"`
}

// Report is what one worker process hands back to the check command.
type Report struct {
	Property     string            `json:"property"`
	Tier         string            `json:"tier"`
	Seed         uint64            `json:"seed"`
	Shard        int               `json:"shard"`
	Shards       int               `json:"shards"`
	Race         bool              `json:"race"`
	Evaluations  int64             `json:"evaluations"`
	Distinct     []uint64          `json:"distinct,omitempty"`   // hashes of distinct non-trivial cases
	DistinctN    int64             `json:"distinct_n,omitempty"` // distinct cases of a disjointly sharded enumeration
	Exhaustive   bool              `json:"exhaustive,omitempty"`
	Samples      []interface{}     `json:"samples,omitempty"`
	Violations   []VReport         `json:"violations,omitempty"`
	OtherProps   map[string]int64  `json:"other_props,omitempty"` // violations of other properties seen in this workload
	Inconclusive []string          `json:"inconclusive,omitempty"`
	Counters     map[string]uint64 `json:"counters,omitempty"`
	Stats        map[string]int64  `json:"stats,omitempty"`
	Interleave   []uint64          `json:"interleave,omitempty"` // distinct interleaving signatures
	Notes        []string          `json:"notes,omitempty"`
	WallS        float64           `json:"wall_s"`
	Done         bool              `json:"done"`
}

// RunCtx is the context of one worker run.
type RunCtx struct {
	Prop   string
	Tier   string
	Seed   uint64
	Shard  int
	Shards int
	Race   bool
	Rep    *Report
	out    string
	dset   map[uint64]bool
	iset   map[uint64]bool
	maxV   int
	// Remap, if set, may re-attribute a violation before it is recorded (a
	// workload shared between properties reports under the property it was
	// written for).
	Remap func(v *VReport)
}

// Thorough reports whether the thorough tier is running.
func (c *RunCtx) Thorough() bool { return c.Tier == "thorough" }

// N picks the quick or thorough value; race builds get a fraction.
func (c *RunCtx) N(quick, thorough int) int {
	n := quick
	if c.Thorough() {
		n = thorough
	}
	return n
}

// Mine reports whether case i belongs to this shard.
func (c *RunCtx) Mine(i int) bool { return c.Shards <= 1 || i%c.Shards == c.Shard }

// Eval counts an evaluated case.
func (c *RunCtx) Eval(n int64) { c.Rep.Evaluations += n }

// Distinct records a distinct non-trivial case by hash.
func (c *RunCtx) Distinct(h uint64) {
	if len(c.dset) < 400000 {
		c.dset[h] = true
	}
}

// Interleaving records an interleaving signature.
func (c *RunCtx) Interleaving(h uint64) {
	if len(c.iset) < 400000 {
		c.iset[h] = true
	}
}

// Sample keeps up to five sample cases.
func (c *RunCtx) Sample(v interface{}) {
	if len(c.Rep.Samples) < 5 {
		c.Rep.Samples = append(c.Rep.Samples, v)
	}
}

// Stat adds to a statistic.
func (c *RunCtx) Stat(k string, d int64) {
	if c.Rep.Stats == nil {
		c.Rep.Stats = map[string]int64{}
	}
	c.Rep.Stats[k] += d
}

// Counters merges hook coverage counters.
func (c *RunCtx) Counters(m map[string]uint64) {
	if c.Rep.Counters == nil {
		c.Rep.Counters = map[string]uint64{}
	}
	for k, v := range m {
		c.Rep.Counters[k] += v
	}
}

// Violation records a violation of the property under check (or counts one of
// another property).
func (c *RunCtx) Violation(v VReport) {
	if c.Remap != nil {
		c.Remap(&v)
	}
	if v.Prop != c.Prop && os.Getenv("VG_ALLPROPS") == "" {
		if c.Rep.OtherProps == nil {
			c.Rep.OtherProps = map[string]int64{}
		}
		c.Rep.OtherProps[v.Prop+"/"+v.Sig]++
		return
	}
	// keep at most a few witnesses per signature
	n := 0
	for _, o := range c.Rep.Violations {
		if o.Sig == v.Sig {
			n++
		}
	}
	if n >= 3 {
		v.Witness = nil
		if n >= 50 {
			return
		}
	}
	c.Rep.Violations = append(c.Rep.Violations, v)
}

// Inconclusive records an inconclusive outcome.
func (c *RunCtx) Inconclusive(s string) {
	if len(c.Rep.Inconclusive) < 20 {
		c.Rep.Inconclusive = append(c.Rep.Inconclusive, s)
	}
}

// Flush writes the report (also called periodically so that a crash leaves
// the progress so far).
func (c *RunCtx) Flush(done bool) {
	c.Rep.Done = done
	c.Rep.Distinct = c.Rep.Distinct[:0]
	for h := range c.dset {
		c.Rep.Distinct = append(c.Rep.Distinct, h)
	}
	c.Rep.Interleave = c.Rep.Interleave[:0]
	for h := range c.iset {
		c.Rep.Interleave = append(c.Rep.Interleave, h)
	}
	b, _ := json.Marshal(c.Rep)
	tmp := c.out + ".tmp"
	if err := os.WriteFile(tmp, b, 0o644); err == nil {
		os.Rename(tmp, c.out)
	}
}

// WAL appends a line to the worker's write-ahead log (what is about to run).
func (c *RunCtx) WAL(format string, a ...interface{}) {
	f, err := os.OpenFile(c.out+".wal", os.O_CREATE|os.O_WRONLY|os.O_TRUNC, 0o644)
	if err != nil {
		return
	}
	fmt.Fprintf(f, format+"\n", a...)
	f.Close()
}

// Runner executes one property's workload in a worker.
type Runner func(c *RunCtx)

var runners = map[string]Runner{}

// Register adds a property runner.
func Register(prop string, r Runner) { runners[prop] = r }

// RunWorker dispatches a worker command line:
//
//	run <prop> --tier T --seed S --shard i/n --out file [--race]
//	replay <file>
func RunWorker(args []string) int {
	if len(args) == 0 {
		return 2
	}
	switch args[0] {
	case "run":
		if len(args) < 2 {
			return 2
		}
		c := &RunCtx{Prop: args[1], Tier: "quick", Seed: 1, Shards: 1, dset: map[uint64]bool{}, iset: map[uint64]bool{}}
		for i := 2; i < len(args); i++ {
			switch args[i] {
			case "--tier":
				i++
				c.Tier = args[i]
			case "--seed":
				i++
				c.Seed, _ = strconv.ParseUint(args[i], 10, 64)
			case "--shard":
				i++
				p := strings.Split(args[i], "/")
				c.Shard, _ = strconv.Atoi(p[0])
				c.Shards, _ = strconv.Atoi(p[1])
			case "--out":
				i++
				c.out = args[i]
			case "--race":
				c.Race = true
			}
		}
		r := runners[c.Prop]
		if r == nil {
			fmt.Fprintln(os.Stderr, "no runner for", c.Prop)
			return 2
		}
		c.Rep = &Report{Property: c.Prop, Tier: c.Tier, Seed: c.Seed, Shard: c.Shard, Shards: c.Shards, Race: c.Race}
		t0 := time.Now()
		c.Flush(false)
		if c.Shard == 0 {
			runDirectedFor(c)
		}
		r(c)
		c.Rep.WallS = time.Since(t0).Seconds()
		c.Flush(true)
		return 0
	case "replay":
		if len(args) < 2 {
			return 2
		}
		return replayFile(args[1])
	case "list":
		var ps []string
		for p := range runners {
			ps = append(ps, p)
		}
		sort.Strings(ps)
		fmt.Println(strings.Join(ps, " "))
		return 0
	}
	return 2
}

// Replayer re-executes a witness and reports whether the violation reproduced.
type Replayer func(witness json.RawMessage) (reproduced bool, detail string)

var replayers = map[string]Replayer{}

// RegisterReplayer adds a witness kind.
func RegisterReplayer(kind string, r Replayer) { replayers[kind] = r }

func replayFile(path string) int {
	b, err := os.ReadFile(path)
	if err != nil {
		fmt.Fprintln(os.Stderr, err)
		return 2
	}
	var w struct {
		Kind      string          `json:"kind"`
		Violation VReport         `json:"violation"`
		Witness   json.RawMessage `json:"witness"`
	}
	if err := json.Unmarshal(b, &w); err != nil {
		fmt.Fprintln(os.Stderr, err)
		return 2
	}
	r := replayers[w.Kind]
	if r == nil {
		fmt.Printf("witness kind %q has no replayer; the file itself is the witness\n", w.Kind)
		return 0
	}
	n, hit := 0, 0
	var last string
	for i := 0; i < 200; i++ {
		ok, d := r(w.Witness)
		n++
		if ok {
			hit++
			last = d
			if hit >= 3 {
				break
			}
		}
	}
	fmt.Printf("replay: reproduced %d of %d executions\n%s\n", hit, n, last)
	if hit > 0 {
		return 1
	}
	return 0
}

// runDirectedFor runs the directed scenarios written for the property under
// check (regression scenarios of defects found earlier: they must stay clean).
func runDirectedFor(c *RunCtx) {
	for _, d := range DirectedScenarios {
		if d.Prop != c.Prop {
			continue
		}
		c.WAL("directed %s", d.Name)
		res := d.Run(c.Seed)
		c.Eval(1)
		c.Stat("directed_scenarios", 1)
		if res.Inconclusive != "" {
			c.Inconclusive("directed " + d.Name + ": " + res.Inconclusive)
		}
		for _, v := range res.Viol {
			c.Violation(VReport{Prop: v.Prop, Sig: v.Sig, RID: v.RID, Msg: "[directed " + d.Name + "] " + v.Msg,
				Witness: map[string]interface{}{"kind": "directed", "name": d.Name, "steps": res.Steps, "frames": res.Frames}})
		}
	}
}
