package vg

// RunWorker dispatches a worker command line.
func RunWorker(args []string) int { return 2 }
