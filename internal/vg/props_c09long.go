package vg

import (
	"fmt"
	"strings"
)

// c09LongNames drives client requests on resource names around the length at
// which "event.<name>" no longer fits the messaging system's control line, so
// that the event subscription of the cache entry cannot be made. Whatever the
// requests' outcome, the entry must not stay in use: cache structure, bus
// subscriptions and the gauges are checked by the generic end-of-history
// monitors.
func c09LongNames(c *RunCtx) {
	type lcase struct {
		Len  int    `json:"len"`
		Op   string `json:"op"`
		Reps int    `json:"reps"`
	}
	var cases []lcase
	for _, l := range []int{4040, 4059, 4060, 4061, 4087, 4088, 4089, 4090, 4096, 4200} {
		for _, op := range []string{"subscribe", "get", "call", "subscribe2"} {
			cases = append(cases, lcase{Len: l, Op: op, Reps: 1})
		}
	}
	for i, cs := range cases {
		if !c.Mine(i) {
			continue
		}
		c.WAL("c09long %+v", cs)
		wit := map[string]interface{}{"kind": "c09long", "case": cs}
		s := NewScript(HistCfg{Seed: 9, Pct: 15, Metrics: true})
		if !s.ok {
			c.Inconclusive("C09 long: " + s.res.Inconclusive)
			continue
		}
		g := s.Gate()
		name := "t." + strings.Repeat("x", cs.Len-2)
		cl := s.Connect("1.2.3")
		if cl == nil {
			g.Stop()
			continue
		}
		switch cs.Op {
		case "subscribe":
			s.Req(cl, "subscribe."+name, nil)
		case "subscribe2":
			s.Req(cl, "subscribe."+name, nil)
			s.Req(cl, "subscribe."+name, nil)
		case "get":
			s.Req(cl, "get."+name, nil)
		case "call":
			s.Req(cl, "call."+name+".m", nil)
		}
		s.Settle()
		if s.ok && strings.HasPrefix(cs.Op, "subscribe") {
			s.Req(cl, "unsubscribe."+name, nil)
			s.Settle()
		}
		res := s.Finish()
		g.CloseAll()
		g.Stop()
		c.Eval(1)
		c.Distinct(Hash64(fmt.Sprintf("%+v", cs)))
		c.Stat("longname_cases", 1)
		if res.Inconclusive != "" {
			c.Inconclusive(fmt.Sprintf("C09 long %+v: %s", cs, res.Inconclusive))
		}
		for _, v := range res.Viol {
			msg := v.Msg
			if len(msg) > 300 {
				msg = msg[:120] + "…" + msg[len(msg)-120:]
			}
			rid := v.RID
			if len(rid) > 40 {
				rid = rid[:20] + "…"
			}
			c.Violation(VReport{Prop: v.Prop, Sig: v.Sig, RID: rid, Msg: fmt.Sprintf("%+v: %s", cs, msg), Witness: wit})
		}
		c.Counters(res.Counters)
	}
}
