package vg

import (
	"encoding/json"
	"fmt"
	"strings"

	"github.com/resgateio/resgate/server/rescache"
)

// hostile payload corpus: (payload, clear-cut malformed?)
type hostile struct {
	P         string
	Malformed bool
}

var changeCorpus = []hostile{
	{``, true}, {`null`, true}, {`[]`, true}, {`"str"`, true}, {`12`, true}, {`{`, true}, {`{"values":`, true},
	{`{"values":null}`, false}, {`{"values":[]}`, true}, {`{"values":"x"}`, false}, {`{"values":{}}`, false},
	{`{"values":{"a":{"rid":""}}}`, true}, {`{"values":{"a":{"rid":"x","action":"delete"}}}`, true},
	{`{"values":{"a":{"rid":"x","data":1}}}`, true}, {`{"values":{"a":{"action":"delete","data":1}}}`, true},
	{`{"values":{"a":{"action":"explode"}}}`, true}, {`{"values":{"a":{}}}`, true}, {`{"values":{"a":{"foo":1}}}`, true},
	{`{"values":{"a":[1,2]}}`, true}, {`{"values":{"a":{"rid":"a..b"}}}`, true}, {`{"values":{"a":{"rid":"a.*"}}}`, true},
	{`{"values":{"a":{"rid":12}}}`, true}, {`{"values":{"a":{"data":null}}}`, false}, {`{"values":{"a":{"data":}}}`, true},
	{`{"values":{"a":{"rid":"t.k","soft":"yes"}}}`, true}, {`{"values":{"a":1},"values":{"a":2}}`, false},
	{`{"values":{"a":1}} trailing`, true},
	// soft references must name a valid resource id too
	{`{"values":{"a":{"rid":"a..b","soft":true}}}`, true}, {`{"values":{"a":{"rid":"t.*","soft":true}}}`, true}, {`{"values":{"a":{"rid":"x y","soft":true}}}`, true},
	{`{"values":{"a":61,"zz":{"rid":"t.>","soft":true}}}`, true}, {`{"values":{"a":{"rid":"t.k","soft":true}}}`, false},
	// a valid property first, a rejected value object later in document order
	{`{"values":{"a":51,"zz":{"action":"unknown"}}}`, true}, {`{"values":{"a":52,"zz":{"rid":"x","action":"delete"}}}`, true},
	{`{"values":{"a":53,"zz":{"rid":""}}}`, true}, {`{"values":{"a":54,"zz":[1,2]}}`, true}, {`{"values":{"a":55,"zz":{"foo":"bar"}}}`, true},
	{`{"values":{"b":"changed","a":56,"zz":{"rid":"a..b"}}}`, true}, {`{"a":57,"zz":{"action":"unknown"}}`, true}, {`{"a":1,"b":2}`, false}, {`{"values":{"a":1e999}}`, false},
	{`{"values":{"` + strings.Repeat("k", 100000) + `":1}}`, false}, {strings.Repeat("[", 20000), true},
	{`{"values":{"a":{"data":` + strings.Repeat("[", 12000) + strings.Repeat("]", 12000) + `}}}`, false},
}

var addCorpus = []hostile{
	{``, true}, {`null`, true}, {`{}`, true}, {`[]`, true}, {`{"idx":0}`, true}, {`{"value":1}`, false},
	{`{"idx":-1,"value":1}`, true}, {`{"idx":99,"value":1}`, true}, {`{"idx":2147483648,"value":1}`, true},
	{`{"idx":9223372036854775808,"value":1}`, true}, {`{"idx":1.5,"value":1}`, true}, {`{"idx":"0","value":1}`, true},
	{`{"idx":null,"value":1}`, false}, {`{"idx":0,"value":{}}`, true}, {`{"idx":0,"value":[1]}`, true},
	{`{"idx":0,"value":{"rid":""}}`, true}, {`{"idx":0,"value":{"action":"delete"}}`, true},
	{`{"idx":0,"value":{"rid":"x y"}}`, true}, {`{"idx":0,"value":{"rid":"x y","soft":true}}`, true}, {`{"idx":0,"value":{"rid":"a..b","soft":true}}`, true},
	{`{"idx":0,"value":{"rid":"t.k","soft":true}}`, false}, {`{"idx":-0,"value":1}`, false}, {`{"idx":1e99,"value":1}`, true},
	{`{"idx":0,"value":1,"idx":99}`, true}, {`{"idx":0,"value":{"data":{"deep":` + strings.Repeat("[", 5000) + strings.Repeat("]", 5000) + `}}}`, false},
}

var removeCorpus = []hostile{
	{``, true}, {`null`, true}, {`{}`, true}, {`{"idx":-1}`, true}, {`{"idx":99}`, true}, {`{"idx":1.5}`, true},
	{`{"idx":"0"}`, true}, {`{"idx":2147483648}`, true}, {`{"idx":[0]}`, true}, {`[0]`, true}, {`{"idx":1e99}`, true},
}

var getCorpus = []string{
	``, `null`, `{}`, `[]`, `{"result":null}`, `{"result":{}}`, `{"result":{"model":null}}`, `{"result":{"model":[]}}`,
	`{"result":{"collection":{}}}`, `{"result":{"model":{},"collection":[]}}`, `{"result":{"model":{"a":{"action":"delete"}}}}`,
	`{"result":{"model":{"a":{}}}}`, `{"result":{"model":{"a":[1]}}}`, `{"result":{"collection":[{"rid":""}]}}`,
	`{"result":{"collection":[{"rid":"a..b"}]}}`, `{"result":{"collection":[[1]]}}`, `{"result":{"model":{"a":1},"query":12}}`,
	`{"error":null}`, `{"error":{}}`, `{"error":{"code":12,"message":[]}}`, `{"error":"boom"}`, `{"error":{"code":"system.notFound"}}`,
	`{"result":{"model":{"a":1}},"error":{"code":"x","message":"y"}}`, `{"result":`, `{"result":{"model":{"a":1}}} x`,
	`{"result":{"model":{"a":{"data":1e999}}}}`, `{"result":{"model":{"a":{"rid":"a..b","soft":true}}}}`, `{"result":{"collection":[{"rid":"t.*","soft":true}]}}`, `{"result":{"model":{"self":{"rid":"t.new0"}}}}`,
}

var accessCorpus = []string{
	``, `null`, `{}`, `[]`, `{"result":null}`, `{"result":[]}`, `{"result":{"get":"yes"}}`, `{"result":{"get":1}}`, `{"result":{"get":true,"call":12}}`,
	`{"result":{"get":true,"call":["a"]}}`, `{"error":{}}`, `{"error":[]}`, `{"result":{"get":true},"meta":{"status":"200"}}`, `{"result":{"get":true},"meta":{"header":"x"}}`,
	`{"result":{"get":true},"meta":{"header":{"a":"b"}}}`, `{"result":{"get":true},"meta":[]}`, `{"result":{"get":true}`, `{"result":{"get":true},"meta":{"status":1e99}}`,
}

var callCorpus = []string{
	``, `null`, `{}`, `[]`, `{"result":null}`, `{"resource":null}`, `{"resource":{}}`, `{"resource":{"rid":12}}`, `{"resource":{"rid":""}}`, `{"resource":{"rid":"a..b"}}`,
	`{"resource":[]}`, `{"resource":{"rid":"t.m"},"result":1}`, `{"error":12}`, `{"result":`, `{"result":{"rid":"t.m"}}`, `{"result":{"rid":12}}`, `{"result":{"rid":"a b"}}`,
	`{"meta":{"status":500}}`, `{"result":1,"meta":{"header":{"X":[1]}}}`,
}

var systemCorpus = []string{
	``, `null`, `{}`, `[]`, `{"resources":null}`, `{"resources":"t.>"}`, `{"resources":[1,2]}`, `{"resources":["", ".", ">.a", "t.*x", "é"]}`, `{"access":{}}`,
	`{"resources":["t.>"],"access":["t.>"]}`, `{"resources":[` + strings.Repeat(`"t.>",`, 2000) + `"t.>"]}`, `{"tids":"x","subject":"s"}`, `{"tids":["tid0"],"subject":""}`,
	`{"tids":["tid0"],"subject":12}`, `{"tids":["tid0"],"subject":"a b"}`, `{"tids":["tid0"],"subject":"auth.t.renew"}`, `{"tids":[1],"subject":"x"}`, `{"subject":"x"}`,
}

var tokenCorpus = []string{
	``, `null`, `{}`, `[]`, `{"token":`, `{"token":{"a":1},"tid":12}`, `{"token":[],"tid":"x"}`, `{"tid":"x"}`, `{"token":null}`, `{"token":1e999}`, `"x"`,
}

var frameCorpus = []string{
	``, ` `, `null`, `[]`, `{}`, `{"id":1}`, `{"id":-1,"method":"version"}`, `{"id":1.5,"method":"version"}`, `{"id":"1","method":"version"}`, `{"id":18446744073709551616,"method":"version"}`,
	`{"id":1,"method":12}`, `{"id":1,"method":null}`, `{"id":1,"method":["subscribe.t.m"]}`, `{"id":1,"method":"subscribe.t.m","params":`, `{"id":1,"method":"unsubscribe.t.m","params":{"count":"1"}}`,
	`{"id":1,"method":"unsubscribe.t.m","params":{"count":1.5}}`, `{"id":1,"method":"unsubscribe.t.m","params":{"count":9223372036854775808}}`, `{"id":1,"method":"unsubscribe.t.m","params":[]}`,
	`{"id":1,"method":"version","params":{"protocol":12}}`, `{"id":1,"method":"version","params":{"protocol":"1.2"}}`, `{"id":1,"method":"version","params":{"protocol":"a.b.c"}}`,
	`{"id":1,"method":"version","params":{"protocol":"1.999999999999.1"}}`, `{"id":1,"method":"version","params":{"protocol":"9.0.0"}}`, `{"id":1,"method":"call.t.m.x","params":` + strings.Repeat("[", 15000) + strings.Repeat("]", 15000) + `}`,
	`{"method":"subscribe.t.m"}`, "\x00\x01\x02", `{"id":1,"method":"subscribe.` + strings.Repeat("a.", 3000) + `b"}`, `{"id":1,"id":2,"method":"version"}`,
}

// mutate applies a seeded structure-unaware mutation to a valid payload.
func mutate(r *Rng, p string) string {
	b := []byte(p)
	if len(b) == 0 {
		return p
	}
	switch r.Intn(7) {
	case 0:
		return string(b[:r.Intn(len(b))]) // truncate
	case 1:
		i := r.Intn(len(b))
		b[i] ^= byte(1 << uint(r.Intn(8)))
	case 2:
		i := r.Intn(len(b))
		b = append(b[:i:i], b[i+1:]...)
	case 3:
		i := r.Intn(len(b))
		ins := []string{`"`, `{`, `}`, `[`, `]`, `,`, `:`, `-`, `1e99`, `null`, `\`, "\x00", `{"rid":""}`, `9999999999999999999999`}[r.Intn(14)]
		b = append(b[:i:i], append([]byte(ins), b[i:]...)...)
	case 4:
		// replace a number with a boundary value
		s := string(b)
		for _, d := range []string{"0", "1", "2", "3"} {
			if i := strings.Index(s, d); i >= 0 {
				rep := []string{"-1", "2147483648", "9223372036854775808", "1.5", "1e99", "-0", `"1"`, "null", "[]", "{}"}[r.Intn(10)]
				return s[:i] + rep + s[i+1:]
			}
		}
	case 5:
		// swap a string for another type
		s := string(b)
		if i := strings.Index(s, `"`); i >= 0 {
			if j := strings.Index(s[i+1:], `"`); j >= 0 {
				rep := []string{"12", "null", "[]", "{}", "true", `""`, `"` + strings.Repeat("z", 70000) + `"`}[r.Intn(7)]
				return s[:i] + rep + s[i+j+2:]
			}
		}
	default:
		return string(b) + string(b)
	}
	return string(b)
}

// cacheData decodes a cache snapshot's service-encoded data into the form a
// client of the given version holds.
func cacheData(rs *rescache.VerifRS, ver int) interface{} {
	switch rs.State {
	case 4:
		var m map[string]json.RawMessage
		if json.Unmarshal(rs.Data, &m) != nil {
			return nil
		}
		out := map[string]interface{}{}
		for k, v := range m {
			out[k] = parseServiceVal(v).ClientValue(ver)
		}
		return out
	case 3:
		var l []json.RawMessage
		if json.Unmarshal(rs.Data, &l) != nil {
			return nil
		}
		out := make([]interface{}, len(l))
		for i, v := range l {
			out[i] = parseServiceVal(v).ClientValue(ver)
		}
		return out
	}
	return nil
}

type c15Env struct {
	s    *Script
	a, b *WSClient
	n    int
}

func newC15Env(seed uint64) *c15Env {
	s := NewScript(HistCfg{Seed: seed, Pct: 10})
	if !s.ok {
		return nil
	}
	w := s.World()
	w.AddModel("t.m", map[string]Val{"a": P(1), "b": P("x"), "r": Ref("t.c")})
	w.AddColl("t.c", []Val{P(1), P(2), Ref("t.k")})
	w.AddModel("t.k", map[string]Val{"v": P(0)})
	w.AddModel("t.o", map[string]Val{"other": P(true)})
	w.AddQueryColl("q.items", []Val{P("i0"), P("i1"), P("i2"), P("i3")})
	e := &c15Env{s: s}
	e.a = s.Connect("1.2.3")
	e.b = s.Connect("")
	if e.a == nil || e.b == nil {
		return nil
	}
	s.Req(e.a, "subscribe.t.m", nil)
	s.Req(e.a, "subscribe.t.o", nil)
	s.Req(e.a, "subscribe.q.items?w=2", nil)
	s.Req(e.b, "subscribe.t.c", nil)
	s.Settle()
	if !s.ok {
		return nil
	}
	return e
}

// consistent compares the cache with both clients' copies (all-or-nothing).
func (e *c15Env) consistent() string {
	g := e.s.h.g
	e.s.h.feed()
	snap := g.Svc.VerifCache().VerifSnapshot()
	for _, cl := range []*WSClient{e.a, e.b} {
		rc := e.s.RC(cl)
		for _, rid := range rc.Retained() {
			res := rc.Cache[rid]
			if res.Kind == RError || res.Deleted || res.Tentative {
				continue
			}
			name, q := ridName(rid)
			for _, en := range snap {
				if en.Name != name {
					continue
				}
				var rs *rescache.VerifRS
				if q == "" {
					rs = en.Base
				} else {
					rs = en.Queries[NormalizeQuery(q)]
				}
				if rs == nil || rs.State < 3 {
					continue
				}
				want := cacheData(rs, rc.Ver)
				if !JSONEqual(want, rc.State(rid)) {
					return fmt.Sprintf("after the message the cache holds %s = %s but connection %d holds %s", rid, Compact(want), cl.Idx, Compact(rc.State(rid)))
				}
			}
		}
	}
	return ""
}

func (e *c15Env) cacheOf(rid string) string {
	name, q := ridName(rid)
	for _, en := range e.s.h.g.Svc.VerifCache().VerifSnapshot() {
		if en.Name != name {
			continue
		}
		if q == "" && en.Base != nil {
			return string(en.Base.Data)
		}
		if q != "" && en.Queries[NormalizeQuery(q)] != nil {
			return string(en.Queries[NormalizeQuery(q)].Data)
		}
	}
	return ""
}

// c15Run injects hostile messages of every kind into running gateways.
func c15Run(c *RunCtx) {
	n := c.N(24000, 600000)
	r := NewRng(c.Seed ^ 0xc15)
	var e *c15Env
	used := 0
	for i := 0; i < n; i++ {
		seed := r.U64()
		if !c.Mine(i) {
			continue
		}
		rr := NewRng(seed)
		if e == nil || used >= 40 {
			if e != nil {
				e.s.h.g.CloseAll()
				e.s.h.g.Stop()
			}
			e = newC15Env(seed)
			used = 0
			if e == nil {
				c.Inconclusive("C15: environment setup failed")
				return
			}
		}
		used++
		g := e.s.h.g
		w := e.s.World()
		kinds := []string{"ev.change", "ev.add", "ev.remove", "ev.custom", "ev.weird", "get", "access", "call", "query", "reset", "tokenreset", "token", "frame", "httpbody", "queryresp", "resetresp"}
		kind := kinds[rr.Intn(len(kinds))]
		var payload string
		malformed := false
		pick := func(corpus []hostile, valid string) {
			if rr.Chance(55) {
				h := corpus[rr.Intn(len(corpus))]
				payload, malformed = h.P, h.Malformed
			} else {
				payload = mutate(rr, valid)
				for k := rr.Intn(3); k > 0; k-- {
					payload = mutate(rr, payload)
				}
			}
		}
		pickS := func(corpus []string, valid string) {
			if rr.Chance(55) {
				payload = corpus[rr.Intn(len(corpus))]
			} else {
				payload = mutate(rr, valid)
			}
		}
		f0a, f0b := len(e.a.Frames()), len(e.b.Frames())
		before := ""
		target := ""
		qrSuffix := ".queryEventList"
		c.WAL("C15 #%d kind=%s seed=%d", i, kind, seed)
		desc := func() map[string]interface{} {
			p := payload
			if len(p) > 300 {
				p = p[:300] + fmt.Sprintf("...(%d bytes)", len(payload))
			}
			return map[string]interface{}{"kind": "hostile", "msg_kind": kind, "payload": p, "seed": seed}
		}
		c.WAL("C15 #%d kind=%s seed=%d payload=%q", i, kind, seed, trunc200([]byte(payload)))
		switch kind {
		case "ev.change":
			pick(changeCorpus, `{"values":{"a":2,"n":{"rid":"t.k"}}}`)
			target = "t.m"
			before = e.cacheOf(target)
			c.WAL("C15 #%d kind=%s payload=%q", i, kind, trunc200([]byte(payload)))
			g.Bus.Event("event.t.m.change", []byte(payload), nil)
		case "ev.add":
			pick(addCorpus, `{"idx":1,"value":{"rid":"t.k"}}`)
			target = "t.c"
			before = e.cacheOf(target)
			c.WAL("C15 #%d kind=%s payload=%q", i, kind, trunc200([]byte(payload)))
			g.Bus.Event("event.t.c.add", []byte(payload), nil)
		case "ev.remove":
			pick(removeCorpus, `{"idx":0}`)
			target = "t.c"
			before = e.cacheOf(target)
			c.WAL("C15 #%d kind=%s payload=%q", i, kind, trunc200([]byte(payload)))
			g.Bus.Event("event.t.c.remove", []byte(payload), nil)
		case "ev.custom":
			pickS(frameCorpus, `{"x":1}`)
			c.WAL("C15 #%d kind=%s payload=%q", i, kind, trunc200([]byte(payload)))
			g.Bus.Event("event.t.m.custom", []byte(payload), nil)
		case "ev.weird":
			// events of the wrong kind for the resource, odd event names
			subj := []string{"event.t.m.add", "event.t.m.remove", "event.t.c.change", "event.t.k.add", "event.t.m.query", "event.t.c.query", "event.q.items.change", "event.q.items.add", "event.t.m.unsubscribe", "event.t.m.é", "event.t.m.create"}[rr.Intn(11)]
			pickS([]string{`{"values":{"a":9}}`, `{"idx":0,"value":9}`, `{"idx":0}`, `{"subject":""}`, `{"subject":12}`, `{"subject":"_Q.x"}`, ``, `null`}, `{"idx":0,"value":9}`)
			malformed = strings.HasSuffix(subj, ".add") && strings.Contains(subj, "t.m") || strings.HasSuffix(subj, "t.c.change")
			if malformed {
				target = subj[len("event."):strings.LastIndexByte(subj, '.')]
				before = e.cacheOf(target)
			}
			c.WAL("C15 #%d kind=%s subj=%s payload=%q", i, kind, subj, trunc200([]byte(payload)))
			g.Bus.Event(subj, []byte(payload), nil)
		case "get", "access":
			e.n++
			name := fmt.Sprintf("t.new%d", e.n)
			w.AddModel(name, map[string]Val{"v": P(e.n)})
			if kind == "get" {
				pickS(getCorpus, `{"result":{"model":{"v":1,"r":{"rid":"t.k"}}}}`)
			} else {
				pickS(accessCorpus, `{"result":{"get":true,"call":"*"}}`)
			}
			c.WAL("C15 #%d kind=%s payload=%q", i, kind, trunc200([]byte(payload)))
			e.s.Req(e.a, "subscribe."+name, nil)
			e.s.Quiesce()
			e.s.ReplyRaw(kind+"."+name, payload)
		case "call":
			pickS(callCorpus, `{"result":{"ok":true}}`)
			c.WAL("C15 #%d kind=%s payload=%q", i, kind, trunc200([]byte(payload)))
			if rr.Chance(50) {
				e.s.Req(e.a, "call.t.m.act", map[string]int{"x": 1})
				e.s.Quiesce()
				e.s.ReplyRaw("call.t.m.act", payload)
			} else {
				e.s.Req(e.a, "auth.t.m.login", map[string]int{"x": 1})
				e.s.Quiesce()
				e.s.ReplyRaw("auth.t.m.login", payload)
			}
		case "query":
			pickS([]string{``, `null`, `{}`, `{"subject":null}`, `{"subject":12}`, `{"subject":""}`, `{"subject":"a b"}`, `{"subject":">"}`, `[]`}, `{"subject":"_Q.1"}`)
			c.WAL("C15 #%d kind=%s payload=%q", i, kind, trunc200([]byte(payload)))
			g.Bus.Event("event.q.items.query", []byte(payload), nil)
		case "queryresp":
			pickS([]string{``, `null`, `{}`, `{"result":null}`, `{"result":{}}`, `{"result":{"events":null}}`, `{"result":{"events":{}}}`, `{"result":{"events":[null]}}`, `{"result":{"events":[{"event":"add"}]}}`,
				`{"result":{"events":[{"event":"add","data":{"idx":99,"value":1}}]}}`, `{"result":{"events":[{"event":"add","data":{"idx":0,"value":"ok"}},{"event":"add","data":{"idx":99,"value":1}}]}}`,
				`{"result":{"events":[{"event":"change","data":{"values":{"a":1}}}]}}`, `{"result":{"model":{"a":1}}}`, `{"result":{"events":[],"collection":[]}}`, `{"result":{"collection":[{}]}}`,
				`{"result":{"events":[{"event":12}]}}`, `{"error":{}}`,
				// a full collection with an inadmissible member next to other differences
				`{"result":{"collection":["zz0",{"action":"delete"},"zz2"]}}`, `{"result":{"collection":[{"action":"delete"},"i0","i1"]}}`,
				`{"result":{"collection":["i1",{"action":"unknown"}]}}`, `{"result":{"collection":["q",{"rid":"a..b"},"r"]}}`, `{"result":{"collection":[[1],"i0"]}}`,
				`{"result":{"collection":["i0","i1",{"rid":"t.c","action":"delete"}]}}`},
				`{"result":{"events":[{"event":"add","data":{"idx":0,"value":"n"}}]}}`)
			c.WAL("C15 #%d kind=%s payload=%q", i, kind, trunc200([]byte(payload)))
			badMember := strings.Contains(payload, `{"result":{"collection":[`) && (strings.Contains(payload, `"action":`) || strings.Contains(payload, `a..b`) || strings.Contains(payload, `[[1]`)) && json.Valid([]byte(payload))
			if badMember || strings.Contains(payload, `"idx":99`) || strings.Contains(payload, `"event":"change"`) || strings.Contains(payload, `[null]`) || strings.Contains(payload, `"event":12`) {
				// an event list with an inapplicable member: the whole response is to be discarded
				malformed = true
				target = "q.items?w=2"
				before = e.cacheOf(target)
				if badMember {
					qrSuffix = ".queryCollection"
				}
			}
			subj := w.MutateQuery("q.items", func(d []Val) []Val { return d })
			e.s.Quiesce()
			e.s.ReplyRaw(subj, payload)
			w.MarkDesynced("q.items", "w=2")
		case "reset", "tokenreset":
			pickS(systemCorpus, `{"resources":["t.>"],"access":["t.m"]}`)
			c.WAL("C15 #%d kind=%s payload=%q", i, kind, trunc200([]byte(payload)))
			if kind == "reset" {
				g.Bus.Event("system.reset", []byte(payload), nil)
			} else {
				g.Bus.Event("system.tokenReset", []byte(payload), nil)
			}
		case "resetresp":
			pickS(getCorpus, `{"result":{"model":{"a":1,"b":"x","r":{"rid":"t.c"}}}}`)
			c.WAL("C15 #%d kind=%s payload=%q", i, kind, trunc200([]byte(payload)))
			g.Bus.Event("system.reset", []byte(`{"resources":["t.m"]}`), nil)
			e.s.Quiesce()
			e.s.ReplyRaw("get.t.m", payload)
		case "token":
			pickS(tokenCorpus, `{"token":{"u":1},"tid":"x"}`)
			c.WAL("C15 #%d kind=%s payload=%q", i, kind, trunc200([]byte(payload)))
			g.Bus.Event("conn."+e.a.CID+".token", []byte(payload), nil)
		case "frame":
			pickS(frameCorpus, `{"id":99999,"method":"subscribe.t.k"}`)
			c.WAL("C15 #%d kind=%s payload=%q", i, kind, trunc200([]byte(payload)))
			e.a.SendRaw([]byte(payload))
		case "httpbody":
			pickS(frameCorpus, `{"p":1}`)
			c.WAL("C15 #%d kind=%s payload=%q", i, kind, trunc200([]byte(payload)))
			hc := g.HTTPDo("POST", "http://localhost/api/t/m/act", []byte(payload), nil, true)
			e.s.AnswerExcept()
			hc.Wait()
		}
		// let everything settle, answering whatever is outstanding normally
		e.s.AnswerExcept()
		if err := g.Quiesce(QOpts{}); err != nil {
			if strings.Contains(err.Error(), "watchdog") {
				c.Violation(VReport{Prop: "C15", Sig: "stall", Msg: fmt.Sprintf("the gateway did not become quiescent after a hostile %s message: %v", kind, err), Witness: desc()})
			} else {
				c.Inconclusive("C15: " + err.Error())
			}
			e = nil
			continue
		}
		if e.a.IsClosed() || e.b.IsClosed() {
			// the gateway may close a connection that sends garbage; start afresh
			c.Stat("c15_connection_closed_by_gateway", 1)
			c.Eval(1)
			e.s.h.g.CloseAll()
			e.s.h.g.Stop()
			e = nil
			continue
		}
		c.Eval(1)
		c.Distinct(Hash64(kind, payload))
		c.Stat("c15_messages."+kind, 1)
		// clear-cut malformed messages: cache unchanged, nothing sent
		if malformed && target != "" {
			if after := e.cacheOf(target); after != before {
				sig := "malformedApplied"
				if kind == "queryresp" {
					sig = "malformedApplied" + qrSuffix
				}
				c.Violation(VReport{Prop: "C15", Sig: sig, Msg: fmt.Sprintf("malformed %s message %s changed the cached %s from %s to %s", kind, trunc200([]byte(payload)), target, before, after), Witness: desc()})
			}
			for _, cl := range []*WSClient{e.a, e.b} {
				f0 := f0a
				if cl == e.b {
					f0 = f0b
				}
				for _, f := range cl.Frames()[f0:] {
					if f.Event != "" {
						sig := "malformedForwarded"
						if kind == "queryresp" {
							sig = "malformedForwarded" + qrSuffix
						}
						c.Violation(VReport{Prop: "C15", Sig: sig, Msg: fmt.Sprintf("malformed %s message %s made the gateway send %s", kind, trunc200([]byte(payload)), trunc200(f.Raw)), Witness: desc()})
					}
				}
			}
		}
		// all or nothing: cache and clients agree
		if msg := e.consistent(); msg != "" {
			sig := "partiallyApplied"
			if kind == "queryresp" {
				sig = "partiallyApplied.queryEvents"
			}
			c.Violation(VReport{Prop: "C15", Sig: sig, Msg: fmt.Sprintf("hostile %s message %s: %s", kind, trunc200([]byte(payload)), msg), Witness: desc()})
			e = nil
			continue
		}
		// no stall: valid probe events on this and on another resource are delivered
		rcA := e.s.RC(e.a)
		n0 := len(rcA.Delivered["t.o"])
		g.Bus.Event("event.t.o.custom", []byte(`{"probe":1}`), nil)
		if err := g.Quiesce(QOpts{}); err != nil {
			c.Violation(VReport{Prop: "C15", Sig: "stall", Msg: "the gateway did not become quiescent after a probe event following a hostile " + kind + " message", Witness: desc()})
			e = nil
			continue
		}
		e.s.h.feed()
		if len(rcA.Delivered["t.o"]) != n0+1 {
			c.Violation(VReport{Prop: "C15", Sig: "probeLost", Msg: fmt.Sprintf("a valid event on another resource was not delivered after a hostile %s message %s", kind, trunc200([]byte(payload))), Witness: desc()})
			e = nil
			continue
		}
		if target == "t.m" && rcA.Holds("t.m") && !rcA.Cache["t.m"].Deleted {
			m0 := len(rcA.Delivered["t.m"])
			g.Bus.Event("event.t.m.custom", []byte(`{"probe":2}`), nil)
			g.Quiesce(QOpts{})
			e.s.h.feed()
			if len(rcA.Delivered["t.m"]) != m0+1 {
				c.Violation(VReport{Prop: "C15", Sig: "probeLostSameResource", Msg: fmt.Sprintf("a later valid event on t.m was not delivered after the hostile message %s", trunc200([]byte(payload))), Witness: desc()})
				e = nil
				continue
			}
		}
		if i%150 == 0 {
			c.Sample(desc())
		}
		if i%100 == 0 {
			c.Flush(false)
		}
	}
	if e != nil {
		e.s.h.g.CloseAll()
		e.s.h.g.Stop()
	}
}
