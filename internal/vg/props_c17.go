package vg

import (
	"encoding/json"
	"fmt"
	"net/http"
	"net/textproto"
	"strings"
	"time"

	"github.com/resgateio/resgate/server"
)

const injected = "INJECTED-BY-META"

// foldHeaders folds a header map case-insensitively (as a client sees it).
func foldHeaders(h http.Header) map[string][]string {
	out := map[string][]string{}
	for k, v := range h {
		ck := textproto.CanonicalMIMEHeaderKey(k)
		out[ck] = append(out[ck], v...)
	}
	return out
}

func casePermutations(name string, r *Rng) []string {
	out := []string{name, strings.ToLower(name), strings.ToUpper(name), textproto.CanonicalMIMEHeaderKey(name)}
	b := []byte(name)
	for k := 0; k < 3; k++ {
		c := append([]byte(nil), b...)
		for i := range c {
			if r.Chance(50) {
				if 'a' <= c[i] && c[i] <= 'z' {
					c[i] -= 32
				} else if 'A' <= c[i] && c[i] <= 'Z' {
					c[i] += 32
				}
			}
		}
		out = append(out, string(c))
	}
	return out
}

var protectedHeaders = []string{"Content-Type", "Access-Control-Allow-Origin", "Access-Control-Allow-Credentials", "Sec-WebSocket-Extensions", "Sec-WebSocket-Protocol"}

// c17System: meta status limits, protected headers, cookies and the CORS
// allow-list through the real HTTP and WebSocket handlers.
func c17System(c *RunCtx) {
	c17MetaStatus(c)
	c17MetaHeaders(c)
	c17Origins2(c)
}

func metaJSON(status *int, hdr map[string][]string) string {
	m := map[string]interface{}{}
	if status != nil {
		m["status"] = *status
	}
	if hdr != nil {
		m["header"] = hdr
	}
	b, _ := json.Marshal(m)
	return string(b)
}

func c17MetaStatus(c *RunCtx) {
	statuses := []int{-1000, -1, 0, 1, 100, 199, 200, 204, 299, 300, 301, 302, 304, 399, 400, 401, 403, 404, 418, 499, 500, 503, 599, 600, 601, 999, 1000, 2147483647, -2147483648}
	for s := -1000; s <= 1000; s += 37 {
		statuses = append(statuses, s)
	}
	idx := 0
	for _, where := range []string{"access-get", "access-post", "call-post", "auth-get"} {
		for _, st := range statuses {
			idx++
			if !c.Mine(idx) {
				continue
			}
			st := st
			c.WAL("C17 meta status %s %d", where, st)
			wit := map[string]interface{}{"kind": "metastatus", "where": where, "status": st}
			fail := func(sig, format string, a ...interface{}) {
				c.Violation(VReport{Prop: "C17", Sig: sig, Msg: fmt.Sprintf("[%s status=%d] ", where, st) + fmt.Sprintf(format, a...), Witness: wit})
			}
			ha := "auth.vault.method"
			g, err := NewGate(GateOpts{Cfg: func(cfg *server.Config) {
				if where == "auth-get" {
					cfg.HeaderAuth = &ha
				}
			}})
			if err != nil {
				c.Inconclusive(err.Error())
				return
			}
			w := NewWorld(g.Bus)
			w.AddModel("t.a", map[string]Val{"x": P(1)})
			meta := metaJSON(&st, map[string][]string{"X-Meta": {"yes"}})
			method, target := "GET", "http://localhost/api/t/a"
			if strings.HasSuffix(where, "post") {
				method, target = "POST", "http://localhost/api/t/a/m"
			}
			var afterMeta []string
			metaSent := false
			hc, err := httpExchange(g, w, method, target, []byte(`{}`), nil, func(r *BusReq) bool {
				if metaSent {
					afterMeta = append(afterMeta, r.Subject)
				}
				switch {
				case r.Kind == "access" && strings.HasPrefix(where, "access"):
					// answer the gets first so that only later requests count
					for _, o := range g.Bus.Outstanding() {
						if o.Kind == "get" {
							name := o.Name
							g.Bus.Reply(o, nil, func() []byte { return w.GetResponse(name) })
						}
					}
					metaSent = true
					g.Bus.Reply(r, []byte(`{"result":{"get":true,"call":"*"},"meta":`+meta+`}`), nil)
					return true
				case r.Kind == "call" && where == "call-post":
					metaSent = true
					g.Bus.Reply(r, []byte(`{"result":{"ok":1},"meta":`+meta+`}`), nil)
					return true
				case r.Kind == "auth" && where == "auth-get":
					metaSent = true
					g.Bus.Reply(r, []byte(`{"result":null,"meta":`+meta+`}`), nil)
					return true
				}
				return false
			})
			c.Eval(1)
			c.Rep.DistinctN++
			if err != nil {
				fail("didNotFinish", "%v", err)
				g.Stop()
				continue
			}
			honoured := st >= 300 && st < 600
			if honoured {
				if hc.Rec.Code != st {
					fail("statusNotHonoured", "response status %d, meta status within 300-599 must be used", hc.Rec.Code)
				}
				if len(afterMeta) > 0 {
					fail("requestAfterDirectStatus", "service requests after the direct-response status: %v", afterMeta)
				}
				if v := foldHeaders(hc.Rec.Header())["X-Meta"]; len(v) == 0 {
					fail("metaHeaderLost", "meta header not included in the direct response")
				}
			} else {
				if hc.Rec.Code == st && st != 200 {
					fail("statusOutsideRangeHonoured", "response status %d taken from a meta status outside 300-599", hc.Rec.Code)
				}
				if hc.Rec.Code != 200 {
					fail("outOfRangeStatusChangedResult", "response status %d, expected the normal 200", hc.Rec.Code)
				}
			}
			g.Stop()
		}
	}
}

func c17MetaHeaders(c *RunCtx) {
	r := NewRng(c.Seed ^ 0x17e)
	idx := 0
	for _, where := range []string{"access-get", "access-post", "call-post", "call-post-error", "call-post-error-status", "auth-get", "auth-get-error", "ws-auth", "ws-auth-error"} {
		for _, ph := range protectedHeaders {
			for _, name := range casePermutations(ph, r) {
				idx++
				if !c.Mine(idx) {
					continue
				}
				c.WAL("C17 meta header %s %q", where, name)
				c17HeaderCase(c, where, ph, name)
				c.Eval(1)
				c.Rep.DistinctN++
				if idx%50 == 1 {
					c.Sample(map[string]interface{}{"layer": "metaheader", "where": where, "header": name})
				}
			}
		}
	}
}

func c17HeaderCase(c *RunCtx, where, ph, name string) {
	wit := map[string]interface{}{"kind": "metaheader", "where": where, "header": name}
	fail := func(sig, format string, a ...interface{}) {
		c.Violation(VReport{Prop: "C17", Sig: sig, Msg: fmt.Sprintf("[%s header=%q] ", where, name) + fmt.Sprintf(format, a...), Witness: wit})
	}
	ha := "auth.vault.method"
	g, err := NewGate(GateOpts{Cfg: func(cfg *server.Config) {
		if strings.HasPrefix(where, "auth") {
			cfg.HeaderAuth = &ha
		}
		if strings.HasPrefix(where, "ws-auth") {
			cfg.WSHeaderAuth = &ha
		}
	}})
	if err != nil {
		c.Inconclusive(err.Error())
		return
	}
	defer g.Stop()
	w := NewWorld(g.Bus)
	w.AddModel("t.a", map[string]Val{"x": P(1)})
	hdr := map[string][]string{name: {injected}, "Set-Cookie": {"c1=" + where}, "set-cookie": {"c2=lower"}, "X-Ok": {"1"}}
	meta := metaJSON(nil, hdr)
	st409 := 409
	var folded map[string][]string
	if strings.HasPrefix(where, "ws-auth") {
		done := make(chan struct{})
		var resp *http.Response
		go func() {
			defer close(done)
			_, rp, _ := g.Connect("", nil)
			resp = rp
		}()
		answered := false
		deadline := time.Now().Add(20 * time.Second)
	wait:
		for time.Now().Before(deadline) {
			select {
			case <-done:
				break wait
			default:
			}
			if !answered {
				if out := g.Bus.Outstanding(); len(out) > 0 && out[0].Kind == "auth" {
					answered = true
					if where == "ws-auth-error" {
						g.Bus.Reply(out[0], []byte(`{"error":{"code":"t.nope","message":"Nope"},"meta":`+meta+`}`), nil)
					} else {
						g.Bus.Reply(out[0], []byte(`{"result":null,"meta":`+meta+`}`), nil)
					}
				}
			}
			time.Sleep(20 * time.Microsecond)
		}
		<-done
		if resp == nil {
			return
		}
		folded = foldHeaders(resp.Header)
	} else {
		method, target := "GET", "http://localhost/api/t/a"
		if strings.Contains(where, "post") {
			method, target = "POST", "http://localhost/api/t/a/m"
		}
		hc, err := httpExchange(g, w, method, target, []byte(`{}`), nil, func(r *BusReq) bool {
			switch {
			case r.Kind == "access" && strings.HasPrefix(where, "access"):
				g.Bus.Reply(r, []byte(`{"result":{"get":true,"call":"*"},"meta":`+meta+`}`), nil)
				return true
			case r.Kind == "call" && where == "call-post":
				g.Bus.Reply(r, []byte(`{"result":{"ok":1},"meta":`+meta+`}`), nil)
				return true
			case r.Kind == "call" && where == "call-post-error":
				g.Bus.Reply(r, []byte(`{"error":{"code":"t.fail","message":"Fail"},"meta":`+meta+`}`), nil)
				return true
			case r.Kind == "call" && where == "call-post-error-status":
				g.Bus.Reply(r, []byte(`{"error":{"code":"t.fail","message":"Fail"},"meta":`+metaJSON(&st409, hdr)+`}`), nil)
				return true
			case r.Kind == "auth" && where == "auth-get":
				g.Bus.Reply(r, []byte(`{"result":null,"meta":`+meta+`}`), nil)
				return true
			case r.Kind == "auth" && where == "auth-get-error":
				g.Bus.Reply(r, []byte(`{"error":{"code":"t.nope","message":"Nope"},"meta":`+meta+`}`), nil)
				return true
			}
			return false
		})
		if err != nil {
			fail("didNotFinish", "%v", err)
			return
		}
		folded = foldHeaders(hc.Rec.Header())
		if ct := folded["Content-Type"]; hc.Rec.Body.Len() > 0 && (len(ct) != 1 || !strings.HasPrefix(ct[0], "application/json")) {
			fail("contentTypeReplaced", "Content-Type is %v", ct)
		}
		if v := folded["X-Ok"]; len(v) != 1 {
			fail("plainMetaHeaderLost", "X-Ok header %v", v)
		}
		cookies := strings.Join(folded["Set-Cookie"], ";")
		if !strings.Contains(cookies, "c1=") || !strings.Contains(cookies, "c2=") {
			fail("cookieLost", "Set-Cookie values %v, expected both c1 and c2 to accumulate", folded["Set-Cookie"])
		}
	}
	for k, vs := range folded {
		for _, v := range vs {
			if v == injected {
				fail("protectedHeaderReplaced", "protected header %s carries the meta value (response headers: %v)", k, folded)
			}
		}
	}
}

// c17Origins2 checks the allow-list through HTTP requests, OPTIONS pre-flights
// and WebSocket upgrades.
func c17Origins2(c *RunCtx) {
	if c.Shard != 0 {
		return
	}
	allow := "http://allowed.example;https://Other.example:8443"
	origins := []struct {
		o  string
		ok bool
	}{
		{"http://allowed.example", true}, {"HTTP://ALLOWED.EXAMPLE", true}, {"https://other.example:8443", true},
		{"http://allowed.example.evil.com", false}, {"http://allowed.exampl", false}, {"http://notallowed.example", false},
		{"https://allowed.example", false}, {"http://allowed.example:80", false}, {"http://allowed.examplé", false},
		{"null", true}, {"", true}, {"http://allowed.example/", false}, {"http://\xffllowed.example", false},
	}
	for _, headerAuth := range []bool{false, true} {
		ha := "auth.vault.method"
		g, err := NewGate(GateOpts{Cfg: func(cfg *server.Config) {
			cfg.AllowOrigin = &allow
			if headerAuth {
				cfg.HeaderAuth = &ha
				cfg.WSHeaderAuth = &ha
			}
		}})
		if err != nil {
			c.Inconclusive(err.Error())
			return
		}
		w := NewWorld(g.Bus)
		w.AddModel("t.a", map[string]Val{"x": P(1)})
		for _, oc := range origins {
			hdr := http.Header{}
			if oc.o != "" {
				hdr["Origin"] = []string{oc.o}
			}
			wit := map[string]interface{}{"kind": "origin", "origin": oc.o, "headerAuth": headerAuth}
			fail := func(sig, format string, a ...interface{}) {
				c.Violation(VReport{Prop: "C17", Sig: sig, Msg: fmt.Sprintf("[origin=%q headerAuth=%v] ", oc.o, headerAuth) + fmt.Sprintf(format, a...), Witness: wit})
			}
			for _, method := range []string{"GET", "POST", "OPTIONS"} {
				target := "http://localhost/api/t/a"
				if method == "POST" {
					target += "/m"
				}
				n0 := g.Bus.NumReqs()
				hc, err := httpExchange(g, w, method, target, []byte(`{}`), hdr, nil)
				c.Eval(1)
				c.Distinct(Hash64("origin", oc.o, method, fmt.Sprint(headerAuth)))
				if err != nil {
					fail("didNotFinish", "%v", err)
					continue
				}
				n1 := g.Bus.NumReqs()
				acao := foldHeaders(hc.Rec.Header())["Access-Control-Allow-Origin"]
				if !oc.ok && len(acao) > 0 && acao[0] == oc.o {
					fail("originEchoed", "%s echoes the non-listed origin in Access-Control-Allow-Origin", method)
				}
				if method == "OPTIONS" {
					if n1 != n0 {
						fail("requestOnPreflight", "OPTIONS caused %d service requests", n1-n0)
					}
					continue
				}
				if oc.ok {
					if hc.Rec.Code == 403 {
						fail("allowedOriginRefused", "%s refused with 403", method)
					}
				} else {
					if hc.Rec.Code != 403 {
						fail("forbiddenOriginServed", "%s answered %d, want 403", method, hc.Rec.Code)
					}
					if n1 != n0 {
						fail("requestForForbiddenOrigin", "%s caused %d service requests for a refused origin", method, n1-n0)
					}
				}
			}
			// WebSocket upgrade
			n0 := g.Bus.NumReqs()
			done := make(chan struct{})
			var cl *WSClient
			var dialErr error
			go func() {
				defer close(done)
				cl, _, dialErr = g.Connect("", hdr)
			}()
			deadline := time.Now().Add(20 * time.Second)
		wait:
			for time.Now().Before(deadline) {
				select {
				case <-done:
					break wait
				default:
				}
				for _, r := range g.Bus.Outstanding() {
					g.Bus.Reply(r, []byte(`{"result":null}`), nil)
				}
				time.Sleep(20 * time.Microsecond)
			}
			<-done
			c.Eval(1)
			if oc.ok && dialErr != nil {
				fail("allowedOriginRefused", "WebSocket upgrade refused: %v", dialErr)
			}
			if !oc.ok {
				if dialErr == nil {
					fail("forbiddenOriginServed", "WebSocket upgrade accepted")
				}
				if g.Bus.NumReqs() != n0 {
					fail("requestForForbiddenOrigin", "WebSocket upgrade of a refused origin caused service requests")
				}
			}
			if cl != nil {
				cl.Close()
			}
			g.Quiesce(QOpts{})
		}
		g.Stop()
	}
}
