package vg

import (
	"encoding/json"
	"fmt"
	"sort"
	"strings"

	"github.com/resgateio/resgate/server/verifhook"
)

type c13Case struct {
	Raw      []string `json:"raw"`       // raw queries, one subscription each
	InFlight bool     `json:"in_flight"` // all gets outstanding at once
	GetOrder []int    `json:"get_order"` // order in which the gets are answered
	Outcomes []string `json:"outcomes"`  // per distinct normalised query (sorted): events collection error notfound timeout
	QOrder   []int    `json:"q_order"`   // order in which the query requests are answered
	Intrude  string   `json:"intrude"`   // none subscribe queryevent
	Mutation string   `json:"mutation"`  // prepend remove0 append
	// HoldLast withholds the get response of the last answered query until
	// the query event's round is over (the query is "still requested" then).
	HoldLast bool `json:"hold_last"`
}

func perms(n int) [][]int {
	if n == 0 {
		return [][]int{{}}
	}
	if n == 1 {
		return [][]int{{0}}
	}
	var out [][]int
	var rec func(cur []int, used []bool)
	rec = func(cur []int, used []bool) {
		if len(cur) == n {
			out = append(out, append([]int(nil), cur...))
			return
		}
		for i := 0; i < n; i++ {
			if !used[i] {
				used[i] = true
				rec(append(cur, i), used)
				used[i] = false
			}
		}
	}
	rec(nil, make([]bool, n))
	return out
}

func boolInt(b bool) int {
	if b {
		return 1
	}
	return 0
}

func distinctNorm(raw []string) []string {
	m := map[string]bool{}
	for _, r := range raw {
		m[NormalizeQuery(r)] = true
	}
	var out []string
	for k := range m {
		out = append(out, k)
	}
	sort.Strings(out)
	return out
}

func runC13Case(c *RunCtx, cs c13Case) {
	wit := map[string]interface{}{"kind": "c13case", "case": cs}
	fail := func(sig, format string, a ...interface{}) {
		c.Violation(VReport{Prop: "C13", Sig: sig, Msg: fmt.Sprintf("%+v: ", cs) + fmt.Sprintf(format, a...), Witness: wit})
	}
	s := NewScript(HistCfg{Seed: 7, Pct: 15})
	if !s.ok {
		return
	}
	defer func() {
		s.h.g.CloseAll()
		s.h.g.Stop()
	}()
	g := s.h.g
	w := s.World()
	data := []Val{P("i0"), P("i1"), P("i2"), P("i3"), P("i4"), P("i5")}
	w.AddQueryColl("q.items", data)
	cl := s.Connect("1.2.3")
	if cl == nil {
		return
	}
	s.Settle()
	rids := make([]string, len(cs.Raw))
	for i, r := range cs.Raw {
		rids[i] = "q.items?" + r
	}
	grant := []byte(`{"result":{"get":true,"call":"*"}}`)
	answerAccess := func() {
		for _, r := range g.Bus.Outstanding() {
			if r.Kind == "access" {
				g.Bus.Reply(r, grant, nil)
			}
		}
	}
	answerGet := func(r *BusReq) {
		var gp struct {
			Query string `json:"query"`
		}
		json.Unmarshal(r.Payload, &gp)
		g.Bus.Reply(r, nil, func() []byte { return w.QueryGetResponse("q.items", gp.Query) })
	}
	getFor := func(raw string) *BusReq {
		for _, r := range g.Bus.Outstanding() {
			if r.Kind != "get" {
				continue
			}
			var gp struct {
				Query string `json:"query"`
			}
			json.Unmarshal(r.Payload, &gp)
			if gp.Query == raw {
				return r
			}
		}
		return nil
	}
	if cs.InFlight {
		for _, rid := range rids {
			s.Req(cl, "subscribe."+rid, nil)
		}
		s.Quiesce()
		answerAccess()
		s.Quiesce()
		for k, i := range cs.GetOrder {
			if cs.HoldLast && k == len(cs.GetOrder)-1 {
				break
			}
			if r := getFor(cs.Raw[i]); r != nil {
				answerGet(r)
				s.Quiesce()
			}
		}
	} else {
		for _, i := range cs.GetOrder {
			s.Req(cl, "subscribe."+rids[i], nil)
			s.Quiesce()
			answerAccess()
			s.Quiesce()
			if r := getFor(cs.Raw[i]); r != nil {
				answerGet(r)
			}
			s.Quiesce()
		}
	}
	held := ""
	if cs.HoldLast {
		held = cs.Raw[cs.GetOrder[len(cs.GetOrder)-1]]
		s.Quiesce()
	} else {
		s.Settle()
	}
	if !s.ok {
		c.Inconclusive("C13: " + s.res.Inconclusive)
		return
	}
	norms := distinctNorm(cs.Raw)
	if cs.HoldLast {
		c13HoldLast(c, s, cs, held, fail, answerGet, getFor)
		return
	}
	// one cache entry per distinct normalised query
	for _, e := range g.Svc.VerifCache().VerifSnapshot() {
		if e.Name != "q.items" {
			continue
		}
		var qs []string
		for q := range e.Queries {
			qs = append(qs, q)
		}
		sort.Strings(qs)
		if strings.Join(qs, "|") != strings.Join(norms, "|") {
			fail("notShared", "cache holds query entries %v, the subscriptions normalise to %v", qs, norms)
		}
		for _, r := range cs.Raw {
			if n := NormalizeQuery(r); n != r && e.Links[r] != n {
				fail("linkMissing", "raw query %q is not linked to its normalised query %q (links %v)", r, n, e.Links)
			}
		}
	}
	// every subscription got its response
	rc := s.RC(cl)
	for _, rid := range rids {
		if rc.Direct[rid] != 1 {
			fail("subscribeFailed", "subscription %s is not established (direct=%d)", rid, rc.Direct[rid])
		}
	}
	// the query event
	f0 := len(cl.Frames())
	n0 := g.Bus.NumReqs()
	subject := w.MutateQuery("q.items", func(d []Val) []Val {
		switch cs.Mutation {
		case "remove0":
			return d[1:]
		case "append":
			return append(d, P("new"))
		}
		return append([]Val{P("new")}, d...)
	})
	s.Quiesce()
	var round []*BusReq
	var got []string
	for _, r := range g.Bus.Outstanding() {
		if r.Subject == subject {
			round = append(round, r)
			var p struct {
				Query string `json:"query"`
			}
			json.Unmarshal(r.Payload, &p)
			got = append(got, p.Query)
		}
	}
	sort.Strings(got)
	if strings.Join(got, "|") != strings.Join(norms, "|") {
		fail("queryRequests", "query requests for %v, cached normalised queries are %v (exactly one each required)", got, norms)
	}
	for _, r := range g.Bus.Reqs()[n0:] {
		if r.Subject != subject {
			fail("strayRequestOnQueryEvent", "unexpected request %s after the query event", r.Subject)
		}
	}
	// intrusion while the round is outstanding
	nIntr := g.Bus.NumReqs()
	var subject2, subject3 string
	intrRID := "q.items?w=9&z"
	switch cs.Intrude {
	case "subscribe":
		s.Req(cl, "subscribe."+intrRID, nil)
		s.Quiesce()
		answerAccess()
		s.Quiesce()
	case "queryevent":
		subject2 = w.MutateQuery("q.items", func(d []Val) []Val { return append(d, P("second")) })
		s.Quiesce()
	case "burst":
		// several messages queue up behind the lock: an event the gateway has
		// no use for (the resource has query subscriptions only) and two query
		// events - the second and third query event are then taken from the
		// middle of the resource's work queue, each exactly once
		g.Bus.Event("event.q.items.custom", nil, func() ([]byte, bool) { return []byte(`{"seq":0}`), true })
		subject2 = w.MutateQuery("q.items", func(d []Val) []Val { return append(d, P("second")) })
		subject3 = w.MutateQuery("q.items", func(d []Val) []Val { return append(d, P("third")) })
		s.Quiesce()
		c.Stat("c13_burst_behind_lock", 1)
	}
	if len(round) > 0 {
		for _, r := range g.Bus.Reqs()[nIntr:] {
			if r.Kind == "get" || (subject2 != "" && r.Subject == subject2) || (subject3 != "" && r.Subject == subject3) {
				fail("handledDuringQueryLock", "request %s was made while query requests of the round were still unanswered", r.Subject)
			}
		}
		if len(cl.Frames()) > f0 {
			for _, f := range cl.Frames()[f0:] {
				if f.Event != "" && strings.HasPrefix(f.Event, "q.items") {
					fail("eventDuringQueryLock", "event %s delivered while query requests were unanswered", f.Event)
				}
			}
		}
	}
	// answer the round
	byQuery := map[string]*BusReq{}
	for _, r := range round {
		var p struct {
			Query string `json:"query"`
		}
		json.Unmarshal(r.Payload, &p)
		byQuery[p.Query] = r
	}
	for k, qi := range cs.QOrder {
		if qi >= len(norms) {
			continue
		}
		r := byQuery[norms[qi]]
		if r == nil {
			continue
		}
		how := cs.Outcomes[qi]
		if how == "timeout" {
			w.MarkDesynced("q.items", norms[qi])
			g.Bus.Timeout(r)
		} else {
			subj, payload := r.Subject, r.Payload
			g.Bus.Reply(r, nil, func() []byte { return w.QueryRequestAnswer(subj, payload, how) })
		}
		s.Quiesce()
		if k < len(cs.QOrder)-1 && len(round) > 1 {
			// still locked: nothing of the intruder may have progressed
			for _, rq := range g.Bus.Reqs()[nIntr:] {
				if rq.Kind == "get" || (subject2 != "" && rq.Subject == subject2) || (subject3 != "" && rq.Subject == subject3) {
					fail("handledDuringQueryLock", "request %s was made before every query request of the round was answered", rq.Subject)
				}
			}
		}
	}
	// resumption: the intruder proceeds now
	s.Quiesce()
	aliveAfter := 0
	for i := range norms {
		if cs.Outcomes[i] != "notfound" {
			aliveAfter++
		}
	}
	switch cs.Intrude {
	case "subscribe":
		found := false
		for _, r := range g.Bus.Reqs()[nIntr:] {
			if r.Kind == "get" {
				found = true
			}
		}
		if !found {
			fail("notResumed", "the subscribe issued during the query lock was not processed after the round completed")
		}
	case "queryevent", "burst":
		found := false
		for _, r := range g.Bus.Reqs()[nIntr:] {
			if r.Subject == subject2 {
				found = true
			}
		}
		if !found && aliveAfter > 0 {
			fail("notResumed", "the query event received during the lock was not handled after the round completed")
		}
	}
	s.Settle()
	// notFound yields delete for that query's subscribers; events under the client's own rid
	nfIdx := map[string]bool{}
	for i, n := range norms {
		if cs.Outcomes[i] == "notfound" {
			nfIdx[n] = true
		}
	}
	subscribed := map[string]bool{intrRID: true}
	for _, rid := range rids {
		subscribed[rid] = true
	}
	deleted := map[string]bool{}
	for _, f := range cl.Frames()[f0:] {
		if f.Event == "" {
			continue
		}
		rid, ev := splitEvent(f.Event)
		if !subscribed[rid] {
			fail("eventUnderWrongRID", "event %s does not carry a resource id this client used", f.Event)
		}
		if ev == "delete" {
			deleted[rid] = true
		}
	}
	for i, rid := range rids {
		n := NormalizeQuery(cs.Raw[i])
		if nfIdx[n] && !deleted[rid] {
			fail("noDeleteOnNotFound", "query request answered system.notFound but %s received no delete event", rid)
		}
		if !nfIdx[n] && deleted[rid] {
			fail("deleteOnWrongQuery", "%s received a delete event although its query request was not answered notFound", rid)
		}
	}
	// a raw query the gateway has not seen yet joins a normalised query that
	// has already processed events: the earlier subscribers of that query keep
	// receiving what is derived for it (convergence is checked at the end)
	lateRID := ""
	if s.ok && len(norms) > 0 && (cs.Outcomes[0] == "events" || cs.Outcomes[0] == "collection") {
		late := norms[0] + "&late"
		lateRID = "q.items?" + late
		s.Req(cl, "subscribe."+lateRID, nil)
		s.Quiesce()
		answerAccess()
		s.Quiesce()
		if r := getFor(late); r != nil {
			answerGet(r)
		} else {
			fail("lateAliasNoGet", "subscription with the new raw query %q was made without a get request", late)
		}
		s.Settle()
		c.Stat("c13_late_alias", 1)
	}
	// bounded progress: a probe event afterwards is handled
	probe := w.MutateQuery("q.items", func(d []Val) []Val { return append([]Val{P("probe")}, d...) /* at the front: every window changes */ })
	s.Quiesce()
	alive := 0
	for i := range norms {
		if cs.Outcomes[i] != "notfound" {
			alive++
		}
	}
	seen := 0
	for _, r := range g.Bus.Outstanding() {
		if r.Subject == probe {
			seen++
		}
	}
	wantProbe := alive
	if cs.Intrude == "subscribe" {
		wantProbe++
	}
	if seen != wantProbe {
		fail("probeNotHandled", "a query event after the round produced %d query requests, %d loaded queries are cached", seen, wantProbe)
	}
	s.Settle()
	// release and re-subscribe: with the last subscriber of a query resource
	// gone the cache forgets the resource and every alias of it, while another
	// query of the same resource keeps the event subscription cached; a new
	// subscription with any of the raw queries is loaded from the service again
	if s.ok {
		keeper := "w=7&keep"
		s.Req(cl, "subscribe.q.items?"+keeper, nil)
		s.Quiesce()
		answerAccess()
		s.Quiesce()
		if r := getFor(keeper); r != nil {
			answerGet(r)
		}
		s.Settle()
		rc := s.RC(cl)
		for _, rid := range append(append([]string{}, rids...), intrRID, lateRID) {
			if rid == "" {
				continue
			}
			for n := rc.Direct[rid]; n > 0; n-- {
				s.Req(cl, "unsubscribe."+rid, nil)
			}
		}
		s.Settle()
		for _, e := range g.Svc.VerifCache().VerifSnapshot() {
			if e.Name != "q.items" {
				continue
			}
			var qs []string
			for q := range e.Queries {
				qs = append(qs, q)
			}
			sort.Strings(qs)
			if len(qs) != 1 || qs[0] != NormalizeQuery(keeper) {
				fail("queryNotReleased", "after every subscription but %q was released the cache holds query entries %v", keeper, qs)
			}
		}
		loaded := map[string]bool{}
		for i, rid := range rids {
			s.Req(cl, "subscribe."+rid, nil)
			s.Quiesce()
			answerAccess()
			s.Quiesce()
			n := NormalizeQuery(cs.Raw[i])
			r := getFor(cs.Raw[i])
			if r == nil && !loaded[n] {
				fail("resubscribeNoGet", "subscription %s after its query resource was released is served without a get request", rid)
			}
			if r != nil {
				answerGet(r)
			}
			loaded[n] = true
			s.Settle()
		}
		c.Stat("c13_resubscribe_phases", 1)
	}
	// every query event of the case: at most one query request per normalised
	// query, and every one of them was handled (a query event received while
	// the resource was locked is taken from the queue exactly once)
	if s.ok {
		perSubj := map[string]map[string]int{}
		for _, r := range g.Bus.Reqs() {
			if !strings.HasPrefix(r.Subject, "_QEVENT.") {
				continue
			}
			var p struct {
				Query string `json:"query"`
			}
			json.Unmarshal(r.Payload, &p)
			if perSubj[r.Subject] == nil {
				perSubj[r.Subject] = map[string]int{}
			}
			perSubj[r.Subject][p.Query]++
			if perSubj[r.Subject][p.Query] == 2 {
				fail("dupQueryRequest", "query %q was requested twice for the query event with subject %s", p.Query, r.Subject)
			}
		}
		c.Stat("c13_query_event_subjects", int64(len(perSubj)))
		if cs.Intrude == "burst" && aliveAfter > 0 && perSubj[subject3] == nil {
			fail("notResumed", "the third query event (queued behind the lock after another query event) was never handled")
		}
	}
	// convergence and protocol violations found by the generic monitors
	res := s.Finish()
	for _, v := range res.Viol {
		sig := v.Sig
		if verifhook.Counter("query.handover") > 0 && cs.InFlight {
			sig += ".handover"
		}
		prop := v.Prop
		if strings.HasPrefix(v.RID, "q.items") && (prop == "C01" || prop == "C02" || prop == "C03" || prop == "C09") {
			// convergence / delivery of the query subscriptions themselves
			sig = prop + "." + sig
			prop = "C13"
		}
		c.Violation(VReport{Prop: prop, Sig: sig, RID: v.RID, Msg: fmt.Sprintf("%+v: %s", cs, v.Msg), Witness: wit})
	}
	c.Counters(res.Counters)
}

func c13Enumerate(c *RunCtx) {
	// query event while one query is still being requested
	hidx := 0
	for _, raw := range [][]string{{"w=2", "w=4"}, {"w=2&a", "w=4"}, {"w=2", "w=4&b"}, {"w=2", "w=3", "w=4"}, {"w=2&a", "w=2&b", "w=4"}} {
		for _, gorder := range perms(len(raw)) {
			hidx++
			if !c.Mine(hidx) {
				continue
			}
			cs := c13Case{Raw: raw, InFlight: true, GetOrder: gorder, HoldLast: true, Outcomes: []string{"events", "events", "events"}}
			c.WAL("C13 case %+v", cs)
			runC13Case(c, cs)
			c.Eval(1)
			c.Rep.DistinctN++
		}
	}
	sets := [][]string{{"w=2"}, {"w=2", "w=4"}, {"w=2&a", "w=2&b"}, {"w=2&a", "w=2"}, {"w=2", "w=2&a"}, {"w=2&a", "w=2&b", "w=4"}}
	outcomes := []string{"events", "collection", "error", "notfound", "timeout"}
	idx := 0
	for _, raw := range sets {
		norms := distinctNorm(raw)
		var outSets [][]string
		if len(norms) == 1 {
			for _, o := range outcomes {
				outSets = append(outSets, []string{o})
			}
		} else {
			for _, a := range outcomes {
				for _, b := range outcomes {
					outSets = append(outSets, []string{a, b})
				}
			}
		}
		for _, inflight := range []bool{false, true} {
			for _, gorder := range perms(len(raw)) {
				for _, outs := range outSets {
					for _, qorder := range perms(len(norms)) {
						for _, intr := range []string{"none", "subscribe", "queryevent", "burst"} {
							idx++
							if !c.Mine(idx) {
								continue
							}
							if !c.Thorough() && idx%3 != int(c.Seed%3) && len(raw) == 3 {
								continue
							}
							cs := c13Case{Raw: raw, InFlight: inflight, GetOrder: gorder, Outcomes: outs, QOrder: qorder, Intrude: intr, Mutation: []string{"prepend", "remove0", "append"}[idx%3]}
							c.WAL("C13 case %+v", cs)
							runC13Case(c, cs)
							c.Eval(1)
							c.Rep.DistinctN++
							if idx%400 == 1 {
								c.Sample(cs)
							}
						}
					}
				}
			}
		}
	}
}

// c13HoldLast: a query event arrives while one query of the resource is
// loaded and another one still has its get outstanding. Exactly the loaded
// queries are asked; the lock must be released again so that the outstanding
// get response, later events and new requests are processed.
func c13HoldLast(c *RunCtx, s *Script, cs c13Case, held string, fail func(sig, format string, a ...interface{}), answerGet func(*BusReq), getFor func(string) *BusReq) {
	g := s.h.g
	w := s.World()
	var loaded []string
	for _, r := range cs.Raw {
		if r != held {
			loaded = append(loaded, r)
		}
	}
	wantNorms := distinctNorm(loaded)
	// the held query may alias a loaded one (then its get is still outstanding but the entry is loaded)
	subject := w.MutateQuery("q.items", func(d []Val) []Val { return append([]Val{P("new")}, d...) })
	s.Quiesce()
	var got []string
	var round []*BusReq
	for _, r := range g.Bus.Outstanding() {
		if r.Subject == subject {
			var p struct {
				Query string `json:"query"`
			}
			json.Unmarshal(r.Payload, &p)
			got = append(got, p.Query)
			round = append(round, r)
		}
	}
	sort.Strings(got)
	if strings.Join(got, "|") != strings.Join(wantNorms, "|") {
		// a still requested entry may or may not be asked (harmless either way)
		all := distinctNorm(cs.Raw)
		if strings.Join(got, "|") != strings.Join(all, "|") {
			fail("queryRequests", "query requests for %v while queries %v are loaded and %q is still requested", got, wantNorms, held)
		}
	}
	for _, r := range round {
		subj, payload := r.Subject, r.Payload
		g.Bus.Reply(r, nil, func() []byte { return w.QueryRequestAnswer(subj, payload, "events") })
	}
	s.Quiesce()
	// now the withheld get response
	if r := getFor(held); r != nil {
		answerGet(r)
	} else {
		fail("heldGetMissing", "the get request for %q is not outstanding any more", held)
	}
	s.Settle()
	rc := s.RC(s.h.g.clientsSnapshot()[0])
	for _, raw := range cs.Raw {
		if rc.Direct["q.items?"+raw] != 1 {
			fail("notResumed", "subscription q.items?%s was never answered after the query event round (processing of the resource did not resume)", raw)
		}
	}
	probe := w.MutateQuery("q.items", func(d []Val) []Val { return append(d, P("probe")) })
	s.Quiesce()
	seen := 0
	for _, r := range g.Bus.Outstanding() {
		if r.Subject == probe {
			seen++
		}
	}
	if seen != len(distinctNorm(cs.Raw)) {
		fail("probeNotHandled", "a query event after the round produced %d query requests, %d loaded queries are cached", seen, len(distinctNorm(cs.Raw)))
	}
	s.Settle()
	res := s.Finish()
	for _, v := range res.Viol {
		prop, sig := v.Prop, v.Sig
		if strings.HasPrefix(v.RID, "q.items") && (prop == "C01" || prop == "C02" || prop == "C03" || prop == "C09") {
			sig = prop + "." + sig
			prop = "C13"
		}
		c.Violation(VReport{Prop: prop, Sig: sig, RID: v.RID, Msg: fmt.Sprintf("%+v: %s", cs, v.Msg)})
	}
	c.Counters(res.Counters)
}

// DebugC13 runs one case given as JSON and returns the worker report (debug aid).
func DebugC13(caseJSON string) *Report {
	var cs c13Case
	if err := json.Unmarshal([]byte(caseJSON), &cs); err != nil {
		return &Report{Notes: []string{err.Error()}}
	}
	c := &RunCtx{Prop: "C13", Tier: "quick", Seed: 1, Shards: 1, dset: map[uint64]bool{}, iset: map[uint64]bool{}}
	c.Rep = &Report{Property: "C13"}
	runC13Case(c, cs)
	return c.Rep
}

// c01QueryCases runs the query-resource cases in which every query request is
// answered with events or a full collection (the ones that end in a
// convergence comparison) for the C01 check.
func c01QueryCases(c *RunCtx) {
	idx := 0
	raws := [][]string{{"w=2&a"}, {"w=2&a", "w=2&b"}, {"w=2&a", "w=2"}, {"w=2", "w=3&x"}, {"w=3&x", "w=3&y", "w=2"}}
	for _, raw := range raws {
		nn := len(distinctNorm(raw))
		for _, inflight := range []bool{false, true} {
			for _, outcome := range []string{"events", "collection"} {
				for _, mut := range []string{"prepend", "remove0", "append"} {
					for _, intr := range []string{"none", "subscribe", "queryevent", "burst"} {
						idx++
						if !c.Mine(idx) {
							continue
						}
						cs := c13Case{Raw: raw, InFlight: inflight, Intrude: intr, Mutation: mut}
						for i := range raw {
							cs.GetOrder = append(cs.GetOrder, len(raw)-1-i)
						}
						for i := 0; i < nn; i++ {
							cs.Outcomes = append(cs.Outcomes, outcome)
							cs.QOrder = append(cs.QOrder, i)
						}
						c.WAL("C01 query case %+v", cs)
						runC13Case(c, cs)
						c.Eval(1)
						c.Stat("c01_query_cases", 1)
					}
				}
			}
		}
	}
}
