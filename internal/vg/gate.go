package vg

import (
	"errors"
	"fmt"
	"net/http"
	"os"
	"runtime"
	"runtime/pprof"
	"sync"
	"sync/atomic"
	"time"

	"github.com/gorilla/websocket"
	"github.com/resgateio/resgate/server"
	"github.com/resgateio/resgate/server/verifhook"
)

// MemLog is a logger keeping the most recent error lines.
type MemLog struct {
	mu     sync.Mutex
	Errors []string
	NErr   int
	Trace  bool
	Lines  []string
}

func (l *MemLog) add(kind, s string) {
	l.mu.Lock()
	if kind == "E" {
		l.NErr++
		if len(l.Errors) < 200 {
			l.Errors = append(l.Errors, s)
		}
	}
	if l.Trace && len(l.Lines) < 20000 {
		l.Lines = append(l.Lines, kind+" "+s)
	}
	l.mu.Unlock()
}

// Log implements logger.Logger.
func (l *MemLog) Log(s string) { l.add("L", s) }

// Error implements logger.Logger.
func (l *MemLog) Error(s string) { l.add("E", s) }

// Debug implements logger.Logger.
func (l *MemLog) Debug(s string) { l.add("D", s) }

// Trace_ implements logger.Logger.
func (l *MemLog) Trace_(s string) { l.add("T", s) }

// IsDebug implements logger.Logger.
func (l *MemLog) IsDebug() bool { return l.Trace }

// IsTrace implements logger.Logger.
func (l *MemLog) IsTrace() bool { return l.Trace }

// memLogAdapter satisfies logger.Logger (whose method is named Trace, which
// clashes with the field).
type memLogAdapter struct{ l *MemLog }

func (a memLogAdapter) Log(s string)   { a.l.Log(s) }
func (a memLogAdapter) Error(s string) { a.l.Error(s) }
func (a memLogAdapter) Debug(s string) { a.l.Debug(s) }
func (a memLogAdapter) Trace(s string) { a.l.Trace_(s) }
func (a memLogAdapter) IsDebug() bool  { return a.l.IsDebug() }
func (a memLogAdapter) IsTrace() bool  { return a.l.IsTrace() }

// ErrorLines returns a copy of the recorded error lines.
func (l *MemLog) ErrorLines() []string {
	l.mu.Lock()
	defer l.mu.Unlock()
	return append([]string(nil), l.Errors...)
}

// NumErrors returns the number of error lines logged.
func (l *MemLog) NumErrors() int {
	l.mu.Lock()
	defer l.mu.Unlock()
	return l.NErr
}

// GateOpts configures a gateway under test.
type GateOpts struct {
	Cfg        func(*server.Config)
	UnsubDelay time.Duration // eviction delay (0 = immediately)
	Seed       uint64        // perturbation seed
	Pct        int           // default perturbation percentage
	SitePct    map[string]int
	Trace      bool
	KeepHook   bool // do not reconfigure the hook state (counters keep accumulating)
}

// ErrInconclusive is returned when a watchdog fired.
var ErrInconclusive = errors.New("inconclusive: watchdog")

// Gate is one gateway instance under test with its boundaries.
type Gate struct {
	Svc   *server.Service
	Bus   *Bus
	Clock *Clock
	Log   *MemLog
	Opts  GateOpts

	mu       sync.Mutex
	Clients  []*WSClient
	HTTP     []*HTTPCall
	dialed   int
	wsClosed atomic.Int64
	stopped  bool

	// Findings noted by Quiesce.
	ConnLeaks []string
	// DeadConnReqs: requests seen at the bus whose cid was not registered any more
	DeadConnReqs []string
	HTTPStalls   []string

	Watchdog time.Duration
}

// NewGate creates and starts a gateway on a fresh bus.
func NewGate(o GateOpts) (*Gate, error) {
	if !o.KeepHook {
		verifhook.Configure(o.Seed, o.Pct, o.SitePct)
	}
	clock := &Clock{}
	bus := NewBus(clock)
	var cfg server.Config
	cfg.SetDefault()
	cfg.NoHTTP = true
	if o.Cfg != nil {
		o.Cfg(&cfg)
	}
	svc, err := server.NewService(bus, cfg)
	if err != nil {
		return nil, err
	}
	l := &MemLog{Trace: o.Trace}
	svc.SetLogger(memLogAdapter{l})
	g := &Gate{Svc: svc, Bus: bus, Clock: clock, Log: l, Opts: o, Watchdog: 30 * time.Second}
	svc.VerifCache().VerifSetUnsubscribeDelay(o.UnsubDelay)
	svc.SetOnWSClose(func(*websocket.Conn) { g.wsClosed.Add(1) })
	// C11: a request made on behalf of a connection that is no longer
	// registered (dispose removes it last) is work for a released connection
	bus.OnRequestGate = func(r *BusReq) {
		if r.CID == "" || svc.VerifHasConn(r.CID) {
			return
		}
		g.mu.Lock()
		if len(g.DeadConnReqs) < 50 {
			g.DeadConnReqs = append(g.DeadConnReqs, fmt.Sprintf("request %s (t=%d) carries cid %s of a connection that is no longer registered", r.Subject, r.T, r.CID))
		}
		g.mu.Unlock()
	}
	if err := svc.Start(); err != nil {
		return nil, err
	}
	return g, nil
}

// Handler returns the gateway's HTTP handler (WebSocket and API).
func (g *Gate) Handler() http.Handler { return g.Svc }

// Connect dials a WebSocket client. version "" skips the version handshake.
func (g *Gate) Connect(version string, header http.Header) (*WSClient, *http.Response, error) {
	g.mu.Lock()
	idx := len(g.Clients)
	g.mu.Unlock()
	c, resp, err := dialWS(g.Svc.GetWSHandlerFunc(), g.Clock, idx, header, "")
	if err != nil {
		return nil, resp, err
	}
	c.Version = version
	g.mu.Lock()
	c.Idx = len(g.Clients)
	g.Clients = append(g.Clients, c)
	g.dialed++
	g.mu.Unlock()
	if version != "" {
		id := c.Request("version", map[string]string{"protocol": version}, "version")
		_ = id
	}
	return c, resp, nil
}

// HTTPDo starts an HTTP request against the handler and returns once it has
// either finished or reached the messaging boundary.
func (g *Gate) HTTPDo(method, url string, body []byte, header http.Header, wait bool) *HTTPCall {
	n0 := g.Bus.NumReqs()
	hc := serveHTTP(g.Svc, g.Clock, method, url, body, header)
	g.mu.Lock()
	g.HTTP = append(g.HTTP, hc)
	g.mu.Unlock()
	if wait {
		deadline := time.Now().Add(g.Watchdog)
		for !hc.Done() && g.Bus.NumReqs() == n0 {
			runtime.Gosched()
			if time.Now().After(deadline) {
				break
			}
		}
	}
	return hc
}

func (g *Gate) clientsSnapshot() []*WSClient {
	g.mu.Lock()
	defer g.mu.Unlock()
	return append([]*WSClient(nil), g.Clients...)
}

func (g *Gate) httpUnfinished() int {
	g.mu.Lock()
	defer g.mu.Unlock()
	n := 0
	for _, h := range g.HTTP {
		if !h.Done() {
			n++
		}
	}
	return n
}

func (g *Gate) totalNonFence() int {
	n := 0
	for _, c := range g.clientsSnapshot() {
		n += c.NonFenceFrames()
	}
	return n
}

// QOpts tunes a quiescence wait.
type QOpts struct {
	AllowOutstanding bool // unanswered service requests may remain
	SkipEviction     bool // do not wait for pending evictions
}

// DumpGoroutines writes all goroutine stacks to stderr.
func DumpGoroutines() {
	pprof.Lookup("goroutine").WriteTo(os.Stderr, 2)
}

// Quiesce waits until nothing is in flight anywhere in the gateway: a logical
// condition established by one consistent round (see DESIGN.md §3.4).
func (g *Gate) Quiesce(o QOpts) error {
	deadline := time.Now().Add(g.Watchdog)
	spins := 0
	for {
		if time.Now().After(deadline) {
			fmt.Fprintf(os.Stderr, "quiesce watchdog: busInflight=%d hookInflight=%d svcIdle=%v cacheIdle=%v conns=%d evict=%d outstanding=%d\n",
				g.Bus.Inflight(), verifhook.Inflight(), g.Svc.VerifIdle(), g.Svc.VerifCache().VerifIdle(), g.Svc.VerifConnCount(), g.Svc.VerifCache().VerifEvictionPending(), len(g.Bus.Outstanding()))
			return ErrInconclusive
		}
		spins++
		if spins > 1 {
			if spins < 50 {
				runtime.Gosched()
			} else {
				time.Sleep(50 * time.Microsecond)
			}
		}
		if g.Bus.Inflight() != 0 {
			continue
		}
		clients := g.clientsSnapshot()
		closed := 0
		for _, c := range clients {
			if c.IsClosed() {
				closed++
			}
		}
		if int(g.wsClosed.Load()) < closed {
			continue
		}
		a0 := verifhook.ActivityCount()
		b0 := g.Bus.Counter()
		f0 := g.totalNonFence()
		cache := g.Svc.VerifCache()
		if verifhook.BusyCount() != 0 || verifhook.ConnPendingCount() != 0 || !g.Svc.VerifIdle() || !cache.VerifIdle() || verifhook.Inflight() != 0 || g.Bus.Inflight() != 0 || verifhook.BusyCount() != 0 {
			continue
		}
		if !o.SkipEviction && cache.VerifEvictionPending() != 0 {
			continue
		}
		// query event locks wait for exactly the unanswered query requests
		// (skipped queries release their slot from a goroutine of their own)
		if rem := cache.VerifLockRemaining(); rem > 0 {
			nq := 0
			for _, r := range g.Bus.Outstanding() {
				switch r.Kind {
				case "access", "get", "call", "auth":
				default:
					nq++
				}
			}
			if rem != nq {
				continue
			}
		}
		unfinished := g.httpUnfinished()
		connCount := g.Svc.VerifConnCount()
		g.mu.Lock()
		expectedWS := g.dialed - int(g.wsClosed.Load())
		g.mu.Unlock()
		if connCount < expectedWS+unfinished {
			continue // an HTTP request is completing
		}
		n := 0
		ok := true
		for _, c := range clients {
			if c.IsClosed() {
				continue
			}
			if !c.Fence() {
				ok = false
				break
			}
			n++
		}
		if !ok {
			continue
		}
		if verifhook.ActivityCount() != a0+uint64(n) || g.Bus.Counter() != b0 || g.totalNonFence() != f0 {
			continue
		}
		if int(g.wsClosed.Load()) < closed || g.httpUnfinished() != unfinished {
			continue
		}
		outstanding := len(g.Bus.Outstanding())
		if outstanding > 0 && !o.AllowOutstanding {
			return fmt.Errorf("quiesce: %d service requests outstanding", outstanding)
		}
		if connCount > expectedWS+unfinished {
			g.ConnLeaks = append(g.ConnLeaks, fmt.Sprintf("service holds %d connections, expected %d ws + %d http", connCount, expectedWS, unfinished))
		}
		if unfinished > 0 && outstanding == 0 {
			g.HTTPStalls = append(g.HTTPStalls, fmt.Sprintf("%d HTTP requests unfinished with nothing in flight", unfinished))
		}
		return nil
	}
}

// Stop stops the service and waits for it.
func (g *Gate) Stop() {
	g.mu.Lock()
	if g.stopped {
		g.mu.Unlock()
		return
	}
	g.stopped = true
	g.mu.Unlock()
	g.Svc.Stop(nil)
	g.Svc.VerifCache().VerifForget()
}

// CloseAll closes every client connection.
func (g *Gate) CloseAll() {
	for _, c := range g.clientsSnapshot() {
		if !c.IsClosed() {
			c.Close()
		}
	}
}
