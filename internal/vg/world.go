package vg

import (
	"encoding/json"
	"fmt"
	"sort"
	"strings"
	"sync"
)

// Protocol versions as the gateway numbers them.
const (
	VerLegacy = 1001001 // no version handshake
	Ver120    = 1002000
	Ver121    = 1002001 // soft references and data values
	VerLatest = 1002003
)

// ParseVersion converts "1.2.0" to 1002000; "" is the legacy version.
func ParseVersion(s string) int {
	if s == "" {
		return VerLegacy
	}
	var a, b, c int
	fmt.Sscanf(s, "%d.%d.%d", &a, &b, &c)
	v := a*1000000 + b*1000 + c
	return v
}

// VKind is the kind of a RES value.
type VKind int

// Value kinds.
const (
	VPrim VKind = iota
	VRef
	VSoft
	VData // data value; JSON is the inner value (object, array or primitive)
)

// Val is a RES value in the world.
type Val struct {
	Kind VKind
	JSON string // primitive JSON or data inner JSON
	RID  string
}

// P makes a primitive value from a Go value.
func P(v interface{}) Val {
	b, _ := json.Marshal(v)
	return Val{Kind: VPrim, JSON: string(b)}
}

// Ref makes a resource reference.
func Ref(rid string) Val { return Val{Kind: VRef, RID: rid} }

// Soft makes a soft reference.
func Soft(rid string) Val { return Val{Kind: VSoft, RID: rid} }

// Data makes a data value with the given inner JSON.
func Data(inner string) Val { return Val{Kind: VData, JSON: inner} }

// Equal compares two values as a service would.
// Equal compares two values the way the gateway does: a data value whose
// content is a primitive is that primitive.
func (v Val) Equal(w Val) bool {
	if v.Kind == VData && dataInnerIsPrimitive(v.JSON) {
		v.Kind = VPrim
	}
	if w.Kind == VData && dataInnerIsPrimitive(w.JSON) {
		w.Kind = VPrim
	}
	return v == w
}

// ServiceJSON renders the value as a service sends it.
func (v Val) ServiceJSON() string {
	switch v.Kind {
	case VRef:
		b, _ := json.Marshal(v.RID)
		return `{"rid":` + string(b) + `}`
	case VSoft:
		b, _ := json.Marshal(v.RID)
		return `{"rid":` + string(b) + `,"soft":true}`
	case VData:
		return `{"data":` + v.JSON + `}`
	}
	return v.JSON
}

func dataInnerIsPrimitive(inner string) bool {
	s := strings.TrimLeft(inner, " \t\r\n")
	return s == "" || (s[0] != '{' && s[0] != '[')
}

// ClientValue renders the value as a client of the given protocol version
// decodes it (independent of the gateway's legacy encoder).
func (v Val) ClientValue(ver int) interface{} {
	switch v.Kind {
	case VRef:
		return map[string]interface{}{"rid": v.RID}
	case VSoft:
		if ver < Ver121 {
			return v.RID
		}
		return map[string]interface{}{"rid": v.RID, "soft": true}
	case VData:
		var inner interface{}
		mustUnmarshal(v.JSON, &inner)
		if dataInnerIsPrimitive(v.JSON) {
			return inner
		}
		if ver < Ver121 {
			return "[Data]"
		}
		return map[string]interface{}{"data": inner}
	}
	var x interface{}
	mustUnmarshal(v.JSON, &x)
	return x
}

func mustUnmarshal(s string, v interface{}) {
	if err := lenientUnmarshal([]byte(s), v); err != nil {
		panic(fmt.Sprintf("world: bad JSON %q: %v", s, err))
	}
}

// RKind is the kind of a world resource.
type RKind int

// Resource kinds.
const (
	RModel RKind = iota
	RColl
	RError // get answers with an error
)

// StreamEv is one emitted event of a resource's event stream.
type StreamEv struct {
	Seq     int
	Kind    string // change add remove custom delete reaccess query
	Payload string
	T1      int64 // clock before the gateway's callback was invoked
	T2      int64 // clock after it returned
	State   bool  // modifies state
	Matched bool  // an event subscription existed
}

// Res is a resource owned by the reference service.
type Res struct {
	Name    string
	Kind    RKind
	M       map[string]Val
	C       []Val
	ErrCode string
	ErrMsg  string
	Stream  []StreamEv
	Deleted bool
	// Silent is set when the state was mutated without an event and no reset
	// has covered it yet.
	Silent bool
	// Q is set for query resources.
	Q *QueryState
}

// World is the ground truth: every resource and its announced state.
type World struct {
	mu  sync.Mutex
	Res map[string]*Res
	Bus *Bus
	// uniq is a source of unique primitive values.
	uniq int
}

// NewWorld creates an empty world bound to a bus.
func NewWorld(b *Bus) *World { return &World{Res: map[string]*Res{}, Bus: b} }

// AddModel defines a model.
func (w *World) AddModel(name string, m map[string]Val) *Res {
	r := &Res{Name: name, Kind: RModel, M: m}
	if r.M == nil {
		r.M = map[string]Val{}
	}
	w.mu.Lock()
	w.Res[name] = r
	w.mu.Unlock()
	return r
}

// AddColl defines a collection.
func (w *World) AddColl(name string, c []Val) *Res {
	r := &Res{Name: name, Kind: RColl, C: c}
	w.mu.Lock()
	w.Res[name] = r
	w.mu.Unlock()
	return r
}

// AddErr defines a resource whose get fails.
func (w *World) AddErr(name, code, msg string) *Res {
	r := &Res{Name: name, Kind: RError, ErrCode: code, ErrMsg: msg}
	w.mu.Lock()
	w.Res[name] = r
	w.mu.Unlock()
	return r
}

// Get returns a resource (nil if unknown).
func (w *World) Get(name string) *Res {
	w.mu.Lock()
	defer w.mu.Unlock()
	return w.Res[name]
}

// Names returns the sorted resource names.
func (w *World) Names() []string {
	w.mu.Lock()
	defer w.mu.Unlock()
	var out []string
	for n := range w.Res {
		out = append(out, n)
	}
	sort.Strings(out)
	return out
}

// Unique returns a fresh unique string.
func (w *World) Unique() string {
	w.mu.Lock()
	defer w.mu.Unlock()
	w.uniq++
	return fmt.Sprintf("u%d", w.uniq)
}

func modelServiceJSON(m map[string]Val) string {
	keys := make([]string, 0, len(m))
	for k := range m {
		keys = append(keys, k)
	}
	sort.Strings(keys)
	var sb strings.Builder
	sb.WriteByte('{')
	for i, k := range keys {
		if i > 0 {
			sb.WriteByte(',')
		}
		kb, _ := json.Marshal(k)
		sb.Write(kb)
		sb.WriteByte(':')
		sb.WriteString(m[k].ServiceJSON())
	}
	sb.WriteByte('}')
	return sb.String()
}

func collServiceJSON(c []Val) string {
	var sb strings.Builder
	sb.WriteByte('[')
	for i, v := range c {
		if i > 0 {
			sb.WriteByte(',')
		}
		sb.WriteString(v.ServiceJSON())
	}
	sb.WriteByte(']')
	return sb.String()
}

// ErrJSON renders a RES error object.
func ErrJSON(code, msg string) string {
	c, _ := json.Marshal(code)
	m, _ := json.Marshal(msg)
	return `{"code":` + string(c) + `,"message":` + string(m) + `}`
}

// GetResponse renders the get response for the resource's current state. It
// must be called under the bus delivery lock.
func (w *World) GetResponse(name string) []byte {
	w.mu.Lock()
	defer w.mu.Unlock()
	r := w.Res[name]
	if r == nil || r.Deleted {
		return []byte(`{"error":` + ErrJSON("system.notFound", "Not found") + `}`)
	}
	switch r.Kind {
	case RModel:
		return []byte(`{"result":{"model":` + modelServiceJSON(r.M) + `}}`)
	case RColl:
		return []byte(`{"result":{"collection":` + collServiceJSON(r.C) + `}}`)
	}
	return []byte(`{"error":` + ErrJSON(r.ErrCode, r.ErrMsg) + `}`)
}

// ClientState renders the resource as a client of the given version should
// hold it: map[string]interface{} for models, []interface{} for collections,
// nil for errors/unknown.
func (w *World) ClientState(name string, ver int) interface{} {
	w.mu.Lock()
	defer w.mu.Unlock()
	r := w.Res[name]
	if r == nil {
		return nil
	}
	switch r.Kind {
	case RModel:
		m := make(map[string]interface{}, len(r.M))
		for k, v := range r.M {
			m[k] = v.ClientValue(ver)
		}
		return m
	case RColl:
		c := make([]interface{}, len(r.C))
		for i, v := range r.C {
			c[i] = v.ClientValue(ver)
		}
		return c
	}
	return nil
}

// HardRefs returns the rids referenced (non-soft) by the resource.
func (w *World) HardRefs(name string) []string {
	w.mu.Lock()
	defer w.mu.Unlock()
	r := w.Res[name]
	if r == nil {
		return nil
	}
	var out []string
	switch r.Kind {
	case RModel:
		for _, v := range r.M {
			if v.Kind == VRef {
				out = append(out, v.RID)
			}
		}
	case RColl:
		for _, v := range r.C {
			if v.Kind == VRef {
				out = append(out, v.RID)
			}
		}
	}
	sort.Strings(out)
	return out
}

func (w *World) emit(name, kind string, state bool, mutate func(r *Res) (string, bool)) (StreamEv, bool) {
	var ev StreamEv
	emitted := false
	subject := "event." + name + "." + kind
	pre := func() ([]byte, bool) {
		w.mu.Lock()
		defer w.mu.Unlock()
		r := w.Res[name]
		if r == nil {
			return nil, false
		}
		payload, ok := mutate(r)
		if !ok {
			return nil, false
		}
		emitted = true
		ev = StreamEv{Seq: len(r.Stream), Kind: kind, Payload: payload, State: state, T1: w.Bus.Clock.Tick()}
		r.Stream = append(r.Stream, ev)
		return []byte(payload), true
	}
	// Mutation and delivery happen atomically under the bus delivery lock, so
	// a get reply computed by the world is always positioned correctly in the
	// resource's event stream.
	matched := w.Bus.Event(subject, nil, pre)
	if !emitted {
		return ev, false
	}
	w.mu.Lock()
	r := w.Res[name]
	r.Stream[ev.Seq].T2 = w.Bus.Clock.Tick()
	r.Stream[ev.Seq].Matched = matched
	ev = r.Stream[ev.Seq]
	w.mu.Unlock()
	return ev, true
}

// Change emits a model change event. A nil entry deletes the key. Entries
// that do not change anything are dropped; if none remain nothing is emitted.
func (w *World) Change(name string, ch map[string]*Val) (StreamEv, bool) {
	return w.emit(name, "change", true, func(r *Res) (string, bool) {
		if r.Kind != RModel || r.Deleted {
			return "", false
		}
		keys := make([]string, 0, len(ch))
		for k, v := range ch {
			old, ok := r.M[k]
			if v == nil {
				if !ok {
					continue
				}
			} else if ok && old.Equal(*v) {
				continue
			}
			keys = append(keys, k)
		}
		if len(keys) == 0 {
			return "", false
		}
		sort.Strings(keys)
		var sb strings.Builder
		sb.WriteString(`{"values":{`)
		for i, k := range keys {
			if i > 0 {
				sb.WriteByte(',')
			}
			kb, _ := json.Marshal(k)
			sb.Write(kb)
			sb.WriteByte(':')
			if ch[k] == nil {
				sb.WriteString(`{"action":"delete"}`)
				delete(r.M, k)
			} else {
				sb.WriteString(ch[k].ServiceJSON())
				r.M[k] = *ch[k]
			}
		}
		sb.WriteString(`}}`)
		return sb.String(), true
	})
}

// Add emits a collection add event.
func (w *World) Add(name string, idx int, v Val) (StreamEv, bool) {
	return w.emit(name, "add", true, func(r *Res) (string, bool) {
		if r.Kind != RColl || r.Deleted || idx < 0 || idx > len(r.C) {
			return "", false
		}
		c := make([]Val, 0, len(r.C)+1)
		c = append(c, r.C[:idx]...)
		c = append(c, v)
		c = append(c, r.C[idx:]...)
		r.C = c
		return fmt.Sprintf(`{"idx":%d,"value":%s}`, idx, v.ServiceJSON()), true
	})
}

// Remove emits a collection remove event.
func (w *World) Remove(name string, idx int) (StreamEv, bool) {
	return w.emit(name, "remove", true, func(r *Res) (string, bool) {
		if r.Kind != RColl || r.Deleted || idx < 0 || idx >= len(r.C) {
			return "", false
		}
		c := make([]Val, 0, len(r.C)-1)
		c = append(c, r.C[:idx]...)
		c = append(c, r.C[idx+1:]...)
		r.C = c
		return fmt.Sprintf(`{"idx":%d}`, idx), true
	})
}

// Custom emits a custom event carrying its own sequence number.
func (w *World) Custom(name, evname string) (StreamEv, bool) {
	return w.emit(name, evname, false, func(r *Res) (string, bool) {
		if r.Kind == RError || r.Deleted {
			return "", false
		}
		return fmt.Sprintf(`{"seq":%d}`, len(r.Stream)), true
	})
}

// Reaccess emits a reaccess event.
func (w *World) Reaccess(name string) (StreamEv, bool) {
	return w.emit(name, "reaccess", false, func(r *Res) (string, bool) {
		return "", true
	})
}

// Delete emits a delete event; the resource is gone afterwards.
func (w *World) Delete(name string) (StreamEv, bool) {
	return w.emit(name, "delete", true, func(r *Res) (string, bool) {
		if r.Kind == RError || r.Deleted {
			return "", false
		}
		r.Deleted = true
		return "", true
	})
}

// Recreate makes a deleted resource exist again (no event).
func (w *World) Recreate(name string) {
	w.mu.Lock()
	if r := w.Res[name]; r != nil {
		r.Deleted = false
	}
	w.mu.Unlock()
}

// Silent mutates a resource under the delivery lock without emitting an
// event; a later system reset must cover it.
func (w *World) Silent(name string, f func(r *Res)) {
	w.Bus.WithDelivery(func() {
		w.mu.Lock()
		defer w.mu.Unlock()
		if r := w.Res[name]; r != nil {
			f(r)
			r.Silent = true
		}
	})
}

// SystemReset publishes a system.reset event.
func (w *World) SystemReset(resources, access []string) {
	p := map[string][]string{}
	if resources != nil {
		p["resources"] = resources
	}
	if access != nil {
		p["access"] = access
	}
	b, _ := json.Marshal(p)
	w.Bus.Event("system.reset", b, nil)
}
