package vg

func c12System(c *RunCtx) {}
func c17System(c *RunCtx) {}
