package vg

func c12System(c *RunCtx) {}
