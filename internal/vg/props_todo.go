package vg
