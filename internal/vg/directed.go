package vg

// Directed is a hand-written scenario with the violation signatures it is
// expected to produce on a tree that still has the corresponding known
// finding (empty = must be clean).
type Directed struct {
	Name string
	Prop string
	Run  func(seed uint64) *HistResult
}

func vp(v Val) *Val { return &v }

// DirectedScenarios lists the directed scenarios by name.
var DirectedScenarios = []Directed{
	{Name: "cycle-ref-removed-then-readded", Prop: "C02", Run: func(seed uint64) *HistResult {
		// a -> b, b <-> c. Removing b->c makes the client drop c; re-adding a
		// reference to c later must deliver c again.
		s := NewScript(HistCfg{Seed: seed, Pct: 10})
		w := s.World()
		w.AddModel("t.a", map[string]Val{"b": Ref("t.b")})
		w.AddModel("t.b", map[string]Val{"c": Ref("t.c")})
		w.AddModel("t.c", map[string]Val{"b": Ref("t.b"), "x": P(1)})
		c := s.Connect("1.2.3")
		s.Req(c, "subscribe.t.a", nil)
		s.Settle()
		w.Change("t.b", map[string]*Val{"c": nil})
		s.Settle()
		w.Change("t.c", map[string]*Val{"x": vp(P(2))})
		s.Settle()
		w.Change("t.a", map[string]*Val{"c": vp(Ref("t.c"))})
		s.Settle()
		return s.Finish()
	}},
	{Name: "deleted-root-child-held-by-loading-parent", Prop: "C02", Run: func(seed uint64) *HistResult {
		// r -> x is held directly; l -> x is still loading (its other child is
		// slow) when r is deleted. The client drops r and with it x, so l's
		// response has to bring x again.
		s := NewScript(HistCfg{Seed: seed, Pct: 0})
		w := s.World()
		w.AddModel("t.r", map[string]Val{"x": Ref("t.x")})
		w.AddModel("t.x", map[string]Val{"v": P(1)})
		w.AddModel("t.l", map[string]Val{"x": Ref("t.x"), "s": Ref("t.s")})
		w.AddModel("t.s", map[string]Val{"slow": P(true)})
		c := s.Connect("1.2.3")
		s.Req(c, "subscribe.t.r", nil)
		s.Settle()
		s.Req(c, "subscribe.t.l", nil)
		s.AnswerExcept("get.t.s")
		w.Delete("t.r")
		s.Quiesce()
		s.Answer("get.t.s")
		s.Settle()
		return s.Finish()
	}},
	{Name: "queued-events-survive-another-parents-response", Prop: "C03", Run: func(seed uint64) *HistResult {
		// x is held directly and waits for a slow reference added by an event,
		// with further events queued behind it. A response for another parent of
		// x must not release those events ahead of the waiting one.
		s := NewScript(HistCfg{Seed: seed, Pct: 0})
		w := s.World()
		w.AddColl("t.x", []Val{P("a")})
		w.AddModel("t.slow", map[string]Val{"v": P(1)})
		w.AddModel("t.p", map[string]Val{"x": Ref("t.x")})
		c := s.Connect("1.2.3")
		s.Req(c, "subscribe.t.x", nil)
		s.Settle()
		w.Add("t.x", 1, Ref("t.slow"))
		s.AnswerExcept("get.t.slow")
		w.Custom("t.x", "custom")
		w.Add("t.x", 0, P("b"))
		w.Custom("t.x", "custom")
		s.Quiesce()
		s.Req(c, "subscribe.t.p", nil)
		s.AnswerExcept("get.t.slow")
		s.Answer("get.t.slow")
		s.Settle()
		return s.Finish()
	}},
	{Name: "custom-events-across-queued-query-events", Prop: "C03", Run: func(seed uint64) *HistResult {
		// t.q is held both plainly and with a query. A query event locks the
		// resource; behind the lock wait a custom event, a second query event
		// and two more custom events, so the second query event is taken from
		// the middle of the work queue. Every custom event is delivered once,
		// in order (the query events change nothing: the plain subscription
		// stays current without events).
		s := NewScript(HistCfg{Seed: seed, Pct: 0})
		w := s.World()
		w.AddQueryColl("t.q", []Val{P("i0"), P("i1"), P("i2"), P("i3")})
		c := s.Connect("1.2.3")
		s.Req(c, "subscribe.t.q", nil)
		s.Settle()
		s.Req(c, "subscribe.t.q?w=2", nil)
		s.Settle()
		same := func(d []Val) []Val { return d }
		// every shape of the queue behind the lock: pre custom events, a query
		// event, mid custom events, optionally another query event, post
		// custom events
		for pre := 0; pre <= 2; pre++ {
			for mid := 0; mid <= 2; mid++ {
				for post := 0; post <= 2; post++ {
					w.MutateQuery("t.q", same)
					s.Quiesce()
					for i := 0; i < pre; i++ {
						w.Custom("t.q", "custom")
					}
					w.MutateQuery("t.q", same)
					for i := 0; i < mid; i++ {
						w.Custom("t.q", "custom")
					}
					if (pre+mid+post)%2 == 1 {
						w.MutateQuery("t.q", same)
					}
					for i := 0; i < post; i++ {
						w.Custom("t.q", "custom")
					}
					s.Settle()
					w.Custom("t.q", "custom")
					s.Settle()
				}
			}
		}
		return s.Finish()
	}},
	{Name: "delete-with-error-child", Prop: "C09", Run: func(seed uint64) *HistResult {
		s := NewScript(HistCfg{Seed: seed, Pct: 0, Metrics: true, GetOutcome: [4]int{100, 0, 0, 0}})
		w := s.World()
		w.AddColl("t.a", []Val{P(1), Ref("t.b")})
		w.AddErr("t.b", "t.broken", "Broken")
		c := s.Connect("1.1.1")
		s.Req(c, "subscribe.t.a", nil)
		s.AnswerExcept("get.t.b")
		s.TimeoutReq("get.t.b")
		s.Settle()
		w.Delete("t.a")
		s.Settle()
		s.Req(c, "unsubscribe.t.a", nil)
		s.Settle()
		return s.Finish()
	}},
	{Name: "indirectsent-after-sent-parent-disposed", Prop: "C02", Run: func(seed uint64) *HistResult {
		// c is held directly and through a -> b -> c. Dropping b must also drop
		// b's "sent" reference to c; otherwise c is later believed to be held
		// through a sent parent when only a loading parent refers to it.
		s := NewScript(HistCfg{Seed: seed, Pct: 0})
		w := s.World()
		w.AddModel("t.a", map[string]Val{"b": Ref("t.b")})
		w.AddModel("t.b", map[string]Val{"c": Ref("t.c")})
		w.AddModel("t.c", map[string]Val{"x": P(1)})
		w.AddModel("t.d", map[string]Val{"c": Ref("t.c"), "x": Ref("t.x")})
		w.AddModel("t.x", map[string]Val{"slow": P(true)})
		c := s.Connect("1.2.3")
		s.Req(c, "subscribe.t.c", nil)
		s.Settle()
		s.Req(c, "subscribe.t.a", nil)
		s.Settle()
		w.Change("t.a", map[string]*Val{"b": nil})
		s.Settle()
		s.Req(c, "subscribe.t.d", nil)
		s.AnswerExcept("get.t.x")
		s.Req(c, "unsubscribe.t.c", nil)
		s.Quiesce()
		s.Answer("get.t.x")
		s.Settle()
		return s.Finish()
	}},
	{Name: "stale-verdict-on-errored-subscription", Prop: "C05", Run: func(seed uint64) *HistResult {
		// A subscription whose resource failed to load queues events for ever;
		// a token change must still invalidate its cached access verdict.
		s := NewScript(HistCfg{Seed: seed, Pct: 0})
		w := s.World()
		w.AddErr("t.x", "t.broken", "Broken")
		w.AddModel("t.caller", map[string]Val{"v": P(1)})
		c := s.Connect("1.2.3")
		s.Settle()
		g := s.Gate()
		s.Token(c, `{"v":1}`, "")
		s.Settle()
		s.Req(c, "call.t.caller.goto", map[string]string{"t": "t.x"})
		s.Settle()
		s.Req(c, "call.t.x.m", nil) // caches the verdict on the errored subscription
		s.Settle()
		s.Token(c, `{"v":2}`, "")
		s.Settle()
		n0 := g.Bus.NumReqs()
		s.Req(c, "call.t.x.m", nil)
		s.Settle()
		sawAccess := false
		for _, r := range g.Bus.Reqs()[n0:] {
			if r.Kind == "access" && r.Name == "t.x" {
				sawAccess = true
			}
			if r.Kind == "call" && !sawAccess {
				s.Fail("C05", "staleGrant", "call.t.x.m forwarded after a token change without a new access request (verdict obtained under the old token)")
			}
		}
		return s.Finish()
	}},
}
