package vg

import (
	"encoding/json"
	"fmt"
	"sort"
	"strings"
)

var c12Names = []string{"a", "b", "a.b", "a.c", "b.a", "a.b.c", "a.b.d", "ab.c", "a.bc", "c.a.b"}

var c12PatternLists = [][]string{
	{"a"}, {"a.b"}, {"a.*"}, {"*.b"}, {"*"}, {">"}, {"a.>"}, {"a.b.>"}, {"*.*"}, {"*.*.*"}, {"a.*.c"}, {"*.b.*"}, {"a.*.>"},
	{"a.b", "a.c"}, {"a.*", "a.b"}, {"a.>", "b.>"}, {"x.>"}, {},
	// invalid patterns match nothing
	{".a"}, {"a."}, {"a..b"}, {"a.>.b"}, {"a.*b"}, {"a*"}, {">a"}, {"a.?"}, {""}, {"a b"},
	{"a..b", "a.b"}, {"*.>", "b"},
}

type c12Case struct {
	Resources []string `json:"resources"`
	Access    []string `json:"access"`
	Outcome   string   `json:"outcome"` // changed same notfound mismatch error
	Overlap   string   `json:"overlap"` // none double
	Conns     int      `json:"conns"`
	// Pending: one more resource (a.pend) whose initial get is still
	// unanswered when the reset arrives
	Pending bool `json:"pending,omitempty"`
}

func c12SysCase(c *RunCtx, cs c12Case) {
	wit := map[string]interface{}{"kind": "c12case", "case": cs}
	fail := func(sig, format string, a ...interface{}) {
		c.Violation(VReport{Prop: "C12", Sig: sig, Msg: fmt.Sprintf("%+v: ", cs) + fmt.Sprintf(format, a...), Witness: wit})
	}
	s := NewScript(HistCfg{Seed: 3, Pct: 10})
	if !s.ok {
		return
	}
	defer func() {
		s.h.g.CloseAll()
		s.h.g.Stop()
	}()
	g := s.h.g
	w := s.World()
	for i, n := range c12Names {
		if i%2 == 0 {
			w.AddModel(n, map[string]Val{"v": P(i), "s": P("x")})
		} else {
			w.AddColl(n, []Val{P("p"), P(i), P("q")})
		}
	}
	w.AddQueryColl("a.q", []Val{P("i0"), P("i1"), P("i2"), P("i3")})
	var cls []*WSClient
	for i := 0; i < cs.Conns; i++ {
		cl := s.Connect([]string{"1.2.3", ""}[i%2])
		if cl == nil {
			return
		}
		cls = append(cls, cl)
		for j, n := range c12Names {
			if i == 0 || j%2 == i%2 {
				s.Req(cl, "subscribe."+n, nil)
			}
		}
		if i == 0 {
			s.Req(cl, "subscribe.a.q?w=2&x", nil)
			s.Req(cl, "subscribe.a.q?w=3", nil)
		}
	}
	s.Settle()
	if !s.ok {
		c.Inconclusive("C12 system: " + s.res.Inconclusive)
		return
	}
	var pendOld []byte
	pendAnswered := false
	if cs.Pending {
		w.AddModel("a.pend", map[string]Val{"v": P(1), "s": P("old")})
		pendOld = w.GetResponse("a.pend")
		s.Req(cls[0], "subscribe.a.pend", nil)
		s.Quiesce()
		for _, r := range g.Bus.Outstanding() {
			if r.Kind == "access" {
				g.Bus.Reply(r, []byte(`{"result":{"get":true,"call":"*"}}`), nil)
			}
		}
		s.Quiesce()
		for _, p := range cs.Resources {
			if refPatternMatch(p, "a.pend") {
				// the service only changes silently what its reset announces
				w.Silent("a.pend", func(r *Res) { r.M["v"] = P(2); r.M["s"] = P("new") })
				break
			}
		}
	}
	// expected sets from the reference matcher over what is cached
	type pair struct{ name, query string }
	wantGets := map[pair]int{}
	for _, e := range g.Svc.VerifCache().VerifSnapshot() {
		match := false
		for _, p := range cs.Resources {
			if refPatternMatch(p, e.Name) {
				match = true
			}
		}
		if !match {
			continue
		}
		if e.Base != nil && e.Base.Query == "" && e.Base.State >= 3 {
			wantGets[pair{e.Name, ""}]++
		}
		for q, rs := range e.Queries {
			if rs.State >= 3 {
				wantGets[pair{e.Name, q}]++
			}
		}
	}
	if cs.Pending {
		for _, p := range cs.Resources {
			if refPatternMatch(p, "a.pend") {
				// still being requested: the answer on its way may predate the reset
				wantGets[pair{"a.pend", ""}] = 1
				break
			}
		}
	}
	wantAccess := map[string]int{}
	for _, snap := range g.Svc.VerifConns() {
		for rid, sub := range snap.Subs {
			if sub.Direct == 0 {
				continue
			}
			name, _ := ridName(rid)
			if name == "a.pend" {
				continue // busy loading: its re-check is deferred until it is loaded
			}
			for _, p := range cs.Access {
				if refPatternMatch(p, name) {
					wantAccess[snap.CID+" "+name]++
					break
				}
			}
		}
	}
	// silently mutate everything, then reset
	for i, n := range c12Names {
		i := i
		w.Silent(n, func(r *Res) {
			if cs.Outcome != "changed" {
				return
			}
			if r.Kind == RModel {
				r.M["v"] = P(i + 100)
				delete(r.M, "s")
				r.M["n"] = P(true)
			} else {
				r.C = []Val{P(i), P("p"), P("new"), P("p")}
			}
		})
	}
	n0 := g.Bus.NumReqs()
	w.SystemReset(cs.Resources, cs.Access)
	if cs.Overlap == "double" {
		w.SystemReset(cs.Resources, nil)
	}
	s.Quiesce()
	gotGets := map[pair]int{}
	gotAccess := map[string]int{}
	for _, r := range g.Bus.Reqs()[n0:] {
		switch r.Kind {
		case "get":
			var p struct {
				Query string `json:"query"`
			}
			json.Unmarshal(r.Payload, &p)
			gotGets[pair{r.Name, p.Query}]++
		case "access":
			gotAccess[r.CID+" "+r.Name]++
		default:
			fail("strayRequestOnReset", "unexpected request %s after the reset", r.Subject)
		}
	}
	render := func(m map[pair]int) string {
		var l []string
		for k, v := range m {
			l = append(l, fmt.Sprintf("%s?%s x%d", k.name, k.query, v))
		}
		sort.Strings(l)
		return strings.Join(l, ", ")
	}
	if render(gotGets) != render(wantGets) {
		fail("refetchSet", "resources=%v re-fetched {%s}; the cached resources matching under NATS wildcard semantics are {%s}", cs.Resources, render(gotGets), render(wantGets))
	}
	for k, v := range wantAccess {
		if gotAccess[k] != v {
			fail("reaccessSet", "access=%v: %d access re-requests for %s, want %d", cs.Access, gotAccess[k], k, v)
		}
	}
	for k, v := range gotAccess {
		if strings.HasSuffix(k, " a.pend") {
			continue
		}
		if wantAccess[k] == 0 {
			fail("reaccessSet", "access=%v: %d access re-requests for %s which matches no access pattern / is not directly subscribed", cs.Access, v, k)
		}
	}
	// answer the re-fetches
	f0 := map[*WSClient]int{}
	for _, cl := range cls {
		f0[cl] = len(cl.Frames())
	}
	for guard := 0; guard < 200; guard++ {
		s.Quiesce()
		out := g.Bus.Outstanding()
		if len(out) == 0 {
			break
		}
		r := out[0]
		switch {
		case r.Kind == "access":
			g.Bus.Reply(r, []byte(`{"result":{"get":true,"call":"*"}}`), nil)
		case r.Kind == "get" && r.Name == "a.q":
			var p struct {
				Query string `json:"query"`
			}
			json.Unmarshal(r.Payload, &p)
			g.Bus.Reply(r, nil, func() []byte { return w.QueryGetResponse("a.q", p.Query) })
		case r.Kind == "get" && r.Name == "a.pend" && !pendAnswered:
			// the initial get, answered from the state before the reset
			pendAnswered = true
			g.Bus.Reply(r, pendOld, nil)
		case r.Kind == "get" && r.Name == "a.pend":
			g.Bus.Reply(r, nil, func() []byte { return w.GetResponse("a.pend") })
		case r.Kind == "get":
			name := r.Name
			switch cs.Outcome {
			case "notfound":
				g.Bus.Reply(r, []byte(`{"error":{"code":"system.notFound","message":"Not found"}}`), nil)
			case "error":
				g.Bus.Reply(r, []byte(`{"error":{"code":"t.down","message":"Down"}}`), nil)
			case "timeout":
				g.Bus.Timeout(r)
			case "noresponders":
				g.Bus.NoResponders(r)
			case "mismatch":
				if w.Get(name).Kind == RModel {
					g.Bus.Reply(r, []byte(`{"result":{"collection":[1,2]}}`), nil)
				} else {
					g.Bus.Reply(r, []byte(`{"result":{"model":{"z":1}}}`), nil)
				}
			default:
				g.Bus.Reply(r, nil, func() []byte { return w.GetResponse(name) })
			}
		default:
			g.Bus.Timeout(r)
		}
	}
	// the reset covers what matched
	w.mu.Lock()
	for name, res := range w.Res {
		covered := false
		for _, p := range cs.Resources {
			if refPatternMatch(p, name) {
				covered = true
			}
		}
		if covered || cs.Outcome != "changed" {
			res.Silent = false
		}
	}
	w.mu.Unlock()
	s.Settle()
	// derived events per outcome (no responders is system.notFound to the gateway)
	notFound := cs.Outcome == "notfound" || cs.Outcome == "noresponders"
	for _, cl := range cls {
		rc := s.RC(cl)
		for _, n := range c12Names {
			matched := wantGets[pair{n, ""}] > 0
			if !rc.Holds(n) && !notFound {
				continue
			}
			var evs []string
			for _, f := range cl.Frames()[f0[cl]:] {
				if rid, ev := splitEvent(f.Event); rid == n && f.Event != "" {
					evs = append(evs, ev)
				}
			}
			switch {
			case !matched || cs.Outcome == "same" || cs.Outcome == "error" || cs.Outcome == "mismatch" || cs.Outcome == "timeout":
				for _, ev := range evs {
					if ev != "unsubscribe" || !notFound {
						fail("eventWithoutChange", "resource %s received %v although nothing may have been derived for it (outcome %s, matched=%v)", n, evs, cs.Outcome, matched)
						break
					}
				}
			case notFound:
				hasDelete := false
				for _, ev := range evs {
					if ev == "delete" {
						hasDelete = true
					}
				}
				if !hasDelete && rc.Direct[n] >= 0 {
					sub := false
					for _, sr := range cl.Sent() {
						if sr.Method == "subscribe."+n {
							sub = true
						}
					}
					if sub {
						fail("noDeleteOnNotFound", "re-fetch of %s answered system.notFound but connection %d received %v", n, cl.Idx, evs)
					}
				}
			case cs.Outcome == "changed":
				if wr := w.Get(n); wr.Kind == RModel {
					if len(evs) != 1 || evs[0] != "change" {
						fail("modelDiffEvents", "re-fetched model %s produced events %v, want exactly one change", n, evs)
					}
				} else {
					for _, ev := range evs {
						if ev != "add" && ev != "remove" {
							fail("collectionDiffEvents", "re-fetched collection %s produced event %s", n, ev)
						}
					}
				}
			}
		}
	}
	// a re-fetch that failed leaves the resource as it was: a later reset
	// re-fetches it again and the clients converge then
	switch cs.Outcome {
	case "error", "timeout", "mismatch":
		if !s.ok {
			break
		}
		for i, n := range c12Names {
			i := i
			w.Silent(n, func(r *Res) {
				if r.Kind == RModel {
					r.M["v"] = P(i + 200)
					r.M["n2"] = P("again")
				} else {
					r.C = []Val{P("again"), P(i), P("p")}
				}
			})
		}
		n1 := g.Bus.NumReqs()
		w.SystemReset(cs.Resources, nil)
		s.Quiesce()
		gotGets2 := map[pair]int{}
		for _, r := range g.Bus.Reqs()[n1:] {
			if r.Kind == "get" {
				var p struct {
					Query string `json:"query"`
				}
				json.Unmarshal(r.Payload, &p)
				gotGets2[pair{r.Name, p.Query}]++
			}
		}
		if render(gotGets2) != render(wantGets) {
			fail("refetchSetAfterFailure", "after re-fetches ended with %q a second reset with resources=%v re-fetched {%s}; the cached resources matching are {%s}", cs.Outcome, cs.Resources, render(gotGets2), render(wantGets))
		}
		w.mu.Lock()
		for name, res := range w.Res {
			for _, p := range cs.Resources {
				if refPatternMatch(p, name) {
					res.Silent = false
				}
			}
		}
		w.mu.Unlock()
		s.Settle()
		c.Stat("c12_second_resets", 1)
	}
	res := s.Finish()
	for _, v := range res.Viol {
		prop, sig := v.Prop, v.Sig
		if prop == "C01" || prop == "C02" {
			// clients converge without resubscribing
			sig = prop + "." + sig
			prop = "C12"
		}
		c.Violation(VReport{Prop: prop, Sig: sig, RID: v.RID, Msg: fmt.Sprintf("%+v: %s", cs, v.Msg), Witness: wit})
	}
	c.Counters(res.Counters)
}

func c12System(c *RunCtx) {
	idx := 0
	for _, pl := range c12PatternLists {
		for _, outcome := range []string{"changed", "same", "notfound", "mismatch", "error", "timeout", "noresponders"} {
			for _, overlap := range []string{"none", "double"} {
				for _, conns := range []int{1, 3} {
					idx++
					if !c.Mine(idx) {
						continue
					}
					if !c.Thorough() && (overlap == "double" || conns == 3) && idx%4 != int(c.Seed%4) {
						continue
					}
					access := pl
					if idx%3 == 0 {
						access = nil
					}
					cs := c12Case{Resources: pl, Access: access, Outcome: outcome, Overlap: overlap, Conns: conns}
					c.WAL("C12 system %+v", cs)
					c12SysCase(c, cs)
					c.Eval(1)
					c.Rep.DistinctN++
					if (outcome == "changed" || outcome == "same") && conns == 1 && overlap == "none" {
						cs.Pending = true
						c.WAL("C12 system %+v", cs)
						c12SysCase(c, cs)
						c.Eval(1)
						c.Rep.DistinctN++
					}
					if idx%100 == 1 {
						c.Sample(cs)
					}
				}
			}
		}
	}
}
