package vg

import (
	"errors"
	"fmt"
	"net/http"
	"strings"
	"time"

	"github.com/resgateio/resgate/server"
)

type c20Case struct {
	Setup string `json:"setup"` // idle outstanding http upgrade evict mixed
	Fault string `json:"fault"` // stop loss
	Gate  bool   `json:"gate"`  // messaging client slow to close: probe while stopping
	Step  int    `json:"step"`  // how far the setup's request flow has progressed (answers given)
}

// c20Run runs three start/fault/stop cycles of one case on the same Service.
func c20Run(c *RunCtx, cs c20Case) {
	wit := map[string]interface{}{"kind": "c20case", "case": cs}
	fail := func(sig, format string, a ...interface{}) {
		c.Violation(VReport{Prop: "C20", Sig: sig, Msg: fmt.Sprintf("%+v: ", cs) + fmt.Sprintf(format, a...), Witness: wit})
	}
	ha := "auth.vault.method"
	g, err := NewGate(GateOpts{Seed: uint64(cs.Step), Pct: 20, UnsubDelay: 30 * time.Millisecond, Cfg: func(cfg *server.Config) {
		if cs.Setup == "upgrade" {
			cfg.WSHeaderAuth = &ha
		}
	}})
	if err != nil {
		c.Inconclusive(err.Error())
		return
	}
	w := NewWorld(g.Bus)
	w.AddModel("t.a", map[string]Val{"x": P(1), "b": Ref("t.b")})
	w.AddModel("t.b", map[string]Val{"y": P(2)})
	answer := func(r *BusReq) {
		switch r.Kind {
		case "access":
			g.Bus.Reply(r, []byte(`{"result":{"get":true,"call":"*"}}`), nil)
		case "get":
			name := r.Name
			g.Bus.Reply(r, nil, func() []byte { return w.GetResponse(name) })
		default:
			g.Bus.Reply(r, []byte(`{"result":null}`), nil)
		}
	}
	for cycle := 0; cycle < 3; cycle++ {
		if cycle > 0 {
			if err := g.Svc.Start(); err != nil {
				fail("restartFailed", "cycle %d: Start after Stop failed: %v", cycle, err)
				return
			}
		}
		if cycle > 0 {
			// nothing cached before the stop may be served after the restart:
			// its event subscriptions died with the old messaging connection
			if snap := g.Svc.VerifCache().VerifSnapshot(); len(snap) > 0 {
				fail("cacheSurvivedRestart", "cycle %d: %d cache entries (first: %s, count %d) exist on the restarted service before any client request", cycle, len(snap), snap[0].Name, snap[0].Count)
			}
			// the service changed the data while the gateway was down
			w.Silent("t.a", func(r *Res) { r.M["x"] = P(100 + cycle) })
			w.mu.Lock()
			w.Res["t.a"].Silent = false
			w.mu.Unlock()
		}
		cycleReq0 := g.Bus.NumReqs()
		stopCh := g.Svc.StopChannel()
		if stopCh == nil {
			fail("noStopChannel", "cycle %d: StopChannel is nil on a started service", cycle)
			return
		}
		// --- setup
		var live []*WSClient
		connect := func() *WSClient {
			cl, _, err := g.Connect("1.2.3", nil)
			if err != nil {
				fail("connectFailed", "cycle %d: connect on a started service failed: %v", cycle, err)
				return nil
			}
			live = append(live, cl)
			return cl
		}
		settleN := func(n int) {
			for k := 0; k < n; k++ {
				g.Quiesce(QOpts{AllowOutstanding: true, SkipEviction: true})
				out := g.Bus.Outstanding()
				if len(out) == 0 {
					return
				}
				answer(out[0])
			}
			g.Quiesce(QOpts{AllowOutstanding: true, SkipEviction: true})
		}
		var hcs []*HTTPCall
		upgradeDone := make(chan struct{})
		upgrading := false
		switch cs.Setup {
		case "idle":
			for i := 0; i < 2; i++ {
				if cl := connect(); cl != nil {
					cl.Request("subscribe.t.a", nil, "")
				}
			}
			settleN(50)
			gets := 0
			for _, r := range g.Bus.Reqs()[cycleReq0:] {
				if r.Subject == "get.t.a" {
					gets++
				}
			}
			if gets == 0 {
				fail("servedFromOldCache", "cycle %d: subscribe.t.a on the (re)started service was answered without a get request", cycle)
			}
			if !g.Bus.HasSub("event.t.a") {
				fail("servedFromOldCache", "cycle %d: t.a is subscribed by clients but there is no event.t.a subscription on the current messaging connection", cycle)
			}
			want := fmt.Sprintf(`"x":%d`, map[bool]int{true: 1, false: 100 + cycle}[cycle == 0])
			for _, cl := range live {
				okData := false
				for _, f := range cl.Frames() {
					if f.HasRes && strings.Contains(string(f.Raw), `"t.a"`) && strings.Contains(string(f.Raw), want) {
						okData = true
					}
				}
				if !okData {
					fail("servedFromOldCache", "cycle %d: client %d did not receive the service's current t.a (%s)", cycle, cl.Idx, want)
				}
			}
		case "outstanding", "mixed":
			a, b := connect(), connect()
			if a == nil || b == nil {
				return
			}
			a.Request("subscribe.t.a", nil, "")
			b.Request("call.t.a.m", nil, "")
			b.Request("subscribe.t.b", nil, "")
			if cs.Setup == "mixed" {
				hcs = append(hcs, g.HTTPDo("GET", "http://localhost/api/t/a", nil, nil, true))
			}
			settleN(cs.Step) // answer only the first Step requests
		case "http":
			connect()
			hcs = append(hcs, g.HTTPDo("GET", "http://localhost/api/t/a", nil, nil, true))
			hcs = append(hcs, g.HTTPDo("POST", "http://localhost/api/t/a/m", []byte(`{}`), nil, true))
			settleN(cs.Step)
		case "upgrade":
			upgrading = true
			go func() {
				defer close(upgradeDone)
				cl, _, err := g.Connect("", nil)
				if err == nil && cl != nil {
					g.mu.Lock()
					g.mu.Unlock()
				}
			}()
			// wait for the header auth request: the connection is registered
			// but has no socket yet
			deadline := time.Now().Add(10 * time.Second)
			for time.Now().Before(deadline) {
				found := false
				for _, r := range g.Bus.Outstanding() {
					if r.Kind == "auth" {
						found = true
					}
				}
				if found {
					break
				}
				time.Sleep(50 * time.Microsecond)
			}
		case "evict":
			cl := connect()
			if cl == nil {
				return
			}
			cl.Request("subscribe.t.a", nil, "")
			settleN(50)
			cl.Request("unsubscribe.t.a", nil, "")
			g.Quiesce(QOpts{AllowOutstanding: true, SkipEviction: true}) // eviction pending (30 ms)
		}
		// --- fault
		cause := errors.New("injected loss of the messaging system")
		var gate chan struct{}
		if cs.Gate {
			gate = make(chan struct{})
			g.Bus.mu.Lock()
			g.Bus.CloseGate = gate
			g.Bus.mu.Unlock()
		}
		stopReturned := make(chan struct{})
		t0 := time.Now()
		switch cs.Fault {
		case "stop":
			cause = nil
			go func() {
				g.Svc.Stop(nil)
				close(stopReturned)
			}()
		case "loss":
			done := g.Bus.LoseConnection(cause)
			go func() {
				<-done
				close(stopReturned)
			}()
		}
		if cs.Gate {
			// while the messaging client is still closing, nothing new may be admitted
			deadline := time.Now().Add(10 * time.Second)
			for !g.Bus.Closing() && time.Now().Before(deadline) {
				time.Sleep(50 * time.Microsecond)
			}
			if g.Bus.Closing() {
				if dialProbe(g.Svc.GetWSHandlerFunc()) {
					fail("admittedWhileStopping", "cycle %d: a WebSocket connection was accepted while the service was stopping", cycle)
				}
				n0 := g.Bus.NumReqs()
				hc := g.HTTPDo("GET", "http://localhost/api/t/b", nil, nil, false)
				select {
				case <-hc.done:
					if hc.Rec.Code != http.StatusServiceUnavailable {
						fail("admittedWhileStopping", "cycle %d: HTTP request during stopping answered %d, want 503", cycle, hc.Rec.Code)
					}
				case <-time.After(2 * time.Second):
					fail("admittedWhileStopping", "cycle %d: HTTP request during stopping was admitted (not answered with 503)", cycle)
				}
				if g.Bus.NumReqs() != n0 {
					fail("admittedWhileStopping", "cycle %d: HTTP request during stopping caused service requests", cycle)
				}
			}
			close(gate)
			g.Bus.mu.Lock()
			g.Bus.CloseGate = nil
			g.Bus.mu.Unlock()
		}
		select {
		case <-stopReturned:
		case <-time.After(25 * time.Second):
			DumpGoroutines()
			c.Inconclusive(fmt.Sprintf("C20 %+v cycle %d: Stop did not return within the 25 s watchdog", cs, cycle))
			return
		}
		c.Stat("c20_stop_ms_total", time.Since(t0).Milliseconds())
		// the cause on the stop channel
		select {
		case got, ok := <-stopCh:
			if !ok {
				fail("stopChannelClosedWithoutValue", "cycle %d: the stop channel was closed without delivering the cause", cycle)
			} else if cause == nil && got != nil {
				fail("stopCause", "cycle %d: stop channel delivered %v for Stop(nil)", cycle, got)
			} else if cause != nil && (got == nil || got.Error() != cause.Error()) {
				fail("stopCause", "cycle %d: stop channel delivered %v, injected cause %v", cycle, got, cause)
			}
		case <-time.After(5 * time.Second):
			fail("noStopSignal", "cycle %d: nothing on the stop channel after Stop returned", cycle)
		}
		// every client socket closed
		for _, cl := range live {
			closed := make(chan struct{})
			go func(cl *WSClient) { cl.WaitClosed(); close(closed) }(cl)
			select {
			case <-closed:
			case <-time.After(5 * time.Second):
				fail("clientNotDisconnected", "cycle %d: client connection %d still open after Stop returned", cycle, cl.Idx)
				cl.Close()
			}
		}
		// nothing new is served
		if dialProbe(g.Svc.GetWSHandlerFunc()) {
			fail("servedAfterStop", "cycle %d: a WebSocket connection was accepted after Stop", cycle)
		}
		hc := g.HTTPDo("GET", "http://localhost/api/t/b", nil, nil, false)
		select {
		case <-hc.done:
			if hc.Rec.Code != http.StatusServiceUnavailable {
				fail("servedAfterStop", "cycle %d: HTTP request after Stop answered %d, want 503", cycle, hc.Rec.Code)
			}
		case <-time.After(2 * time.Second):
			fail("servedAfterStop", "cycle %d: HTTP request after Stop was admitted", cycle)
		}
		if upgrading {
			select {
			case <-upgradeDone:
			case <-time.After(200 * time.Millisecond):
				// the upgrade is stuck in header auth (its answer can never
				// arrive): tolerated, it cannot serve anything
				c.Stat("c20_upgrade_left_waiting", 1)
			}
		}
		for _, h := range hcs {
			select {
			case <-h.done:
			case <-time.After(200 * time.Millisecond):
				c.Stat("c20_http_left_waiting", 1)
			}
		}
		c.Stat("c20_cycles", 1)
		// forget the clients of this cycle
		g.mu.Lock()
		g.Clients = nil
		g.HTTP = nil
		g.dialed = 0
		g.wsClosed.Store(0)
		g.stopped = false
		g.mu.Unlock()
		if cs.Setup == "upgrade" || cs.Setup == "http" || cs.Setup == "mixed" {
			break // handler goroutines of this cycle may still hold connections
		}
	}
}

func c20Enumerate(c *RunCtx) {
	idx := 0
	for _, setup := range []string{"idle", "outstanding", "mixed", "http", "upgrade", "evict"} {
		for _, fault := range []string{"stop", "loss"} {
			for _, gate := range []bool{false, true} {
				steps := []int{0}
				switch setup {
				case "outstanding", "mixed", "http":
					steps = []int{0, 1, 2, 3, 4, 5, 6}
					if !c.Thorough() {
						steps = []int{0, 2, 4}
					}
				}
				for _, st := range steps {
					idx++
					if !c.Mine(idx) {
						continue
					}
					cs := c20Case{Setup: setup, Fault: fault, Gate: gate, Step: st}
					c.WAL("C20 case %+v", cs)
					c20Run(c, cs)
					c.Eval(1)
					c.Rep.DistinctN++
					c.Sample(cs)
				}
			}
		}
	}
}
