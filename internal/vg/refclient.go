package vg

import (
	"encoding/json"
	"fmt"
	"os"
	"reflect"
	"sort"
	"strings"
)

// RCRes is a resource as held by the reference client.
type RCRes struct {
	Kind RKind
	M    map[string]interface{}
	C    []interface{}
	Err  *RErr
	// FromT is the clock of the frame that delivered the data.
	FromT int64
	// Deleted is set when a delete event arrived after the data.
	Deleted bool
	// Tentative is set while the resource is kept only by a subscribe
	// request that has not been answered yet.
	Tentative bool
	// MissedStray is set when an event for this resource arrived while the
	// client only had it from a get response (finding K): the client ignores
	// such an event, so the copy is outdated if it is adopted afterwards.
	MissedStray bool
}

// Viol is a violation found by a monitor.
type Viol struct {
	Prop string `json:"prop"`
	Conn int    `json:"conn"`
	T    int64  `json:"t"`
	RID  string `json:"rid,omitempty"`
	Sig  string `json:"sig"` // short machine-readable class
	// Holder is the resource holding the dangling reference (dangling only).
	Holder string `json:"holder,omitempty"`
	// DropT is the clock at which the client last dropped RID (0 = never).
	DropT int64  `json:"drop_t,omitempty"`
	Msg   string `json:"msg"`
}

func (v Viol) String() string {
	return fmt.Sprintf("%s conn=%d rid=%s sig=%s: %s", v.Prop, v.Conn, v.RID, v.Sig, v.Msg)
}

// DelivEv is an event frame delivered to a client.
type DelivEv struct {
	T     int64
	Event string
	Data  json.RawMessage
}

// UnsubCheck records an unsubscribe request's predicted and actual outcome.
type UnsubCheck struct {
	RID       string
	Count     int
	BadParams bool
	Before    int
	Certain   bool
	OK        bool
	Code      string
}

// RefClient follows the RES client protocol on one connection and holds what
// a real client would hold.
type RefClient struct {
	Conn int
	Ver  int

	Cache  map[string]*RCRes
	Direct map[string]int
	// Extra[rid] is the number of direct subscriptions the gateway may hold in
	// addition to Direct[rid] (the frames do not tell: a resource response
	// whose root is an error entry).
	Extra    map[string]int
	pool     map[string]*RCRes
	poolKeep map[string]*RCRes

	sent      map[uint64]*SentReq
	Responses map[uint64]int
	RespFrame map[uint64]*Frame
	Viol      []Viol
	Delivered map[string][]DelivEv
	// HandT is the clock of the frame that (last) handed the rid to the client.
	HandT map[string]int64
	// DropT is the clock of the frame after which the client stopped holding rid.
	DropT map[string]int64
	// Held lists the intervals during which the client held each rid.
	Held map[string][]HeldInterval
	// EverTentative marks rids that were at some time kept only by an
	// unanswered subscribe or an uncertain direct subscription.
	EverTentative map[string]bool
	// DropPending marks rids the client dropped while one of its requests was
	// still unanswered (the gateway may count that request as a subscription).
	DropGroup map[string][]string
	// LostInStray maps a rid to the rid of the stray event whose (ignored)
	// frame carried its data.
	LostInStray map[string]string
	// LostAfterGet: the stray event that carried the rid was one flushed after
	// a get response (finding K)
	LostAfterGet map[string]bool
	Unsubs       []UnsubCheck
	Debug        bool
	Redundant    int // resources re-sent although already held
	// UnsubEventOnPending counts unsubscribe events for a rid on which only a request in progress existed
	UnsubEventOnPending int
	GetRootMissing      int
	Frames              int
	Events              int
	// Overlap reports whether another request on the same rid is outstanding
	// (set by the driver; nil = never).
	Overlap func(rid string, id uint64) bool
	// RootErrorKeeps, if set by the driver, tells whether the gateway keeps a
	// direct subscription for a resource response whose root is an error
	// entry (it does when the get failed, not when access was refused).
	RootErrorKeeps func(rid string, t int64) (keeps, known bool)
	// UnsubEvents counts unsubscribe events per rid with reason code.
	UnsubEvents []DelivEv
}

// NewRefClient creates a reference client for a protocol version.
func NewRefClient(conn, ver int) *RefClient {
	return &RefClient{
		Conn: conn, Ver: ver,
		Cache: map[string]*RCRes{}, Direct: map[string]int{}, Extra: map[string]int{}, EverTentative: map[string]bool{},
		pool: map[string]*RCRes{}, sent: map[uint64]*SentReq{}, Responses: map[uint64]int{},
		RespFrame: map[uint64]*Frame{},
		Delivered: map[string][]DelivEv{}, HandT: map[string]int64{}, DropT: map[string]int64{}, Held: map[string][]HeldInterval{}, DropGroup: map[string][]string{}, LostInStray: map[string]string{}, LostAfterGet: map[string]bool{},
	}
}

// anyPending reports whether a request other than unsubscribe/version sent
// before t is still unanswered.
func (rc *RefClient) anyPending(t int64) bool {
	for id, sr := range rc.sent {
		if sr.Fence || sr.T >= t || rc.Responses[id] != 0 {
			continue
		}
		if strings.HasPrefix(sr.Method, "unsubscribe.") || sr.Method == "version" {
			continue
		}
		return true
	}
	return false
}

func (rc *RefClient) viol(prop string, t int64, rid, sig, format string, a ...interface{}) {

	rc.Viol = append(rc.Viol, Viol{Prop: prop, Conn: rc.Conn, T: t, RID: rid, Sig: sig, Msg: fmt.Sprintf(format, a...), DropT: rc.DropT[rid]})
}

// NoteSent registers a request the client sent.
func (rc *RefClient) NoteSent(s SentReq) {
	c := s
	rc.sent[s.ID] = &c
}

type resourceSet struct {
	Models      map[string]json.RawMessage `json:"models"`
	Collections map[string]json.RawMessage `json:"collections"`
	Errors      map[string]json.RawMessage `json:"errors"`
}

// hardRef returns the rid if v is a non-soft resource reference.
func hardRef(v interface{}) (string, bool) {
	m, ok := v.(map[string]interface{})
	if !ok {
		return "", false
	}
	rid, ok := m["rid"].(string)
	if !ok {
		return "", false
	}
	if s, ok := m["soft"].(bool); ok && s {
		return "", false
	}
	return rid, true
}

func (r *RCRes) refs() []string {
	var out []string
	switch r.Kind {
	case RModel:
		for _, v := range r.M {
			if rid, ok := hardRef(v); ok {
				out = append(out, rid)
			}
		}
	case RColl:
		for _, v := range r.C {
			if rid, ok := hardRef(v); ok {
				out = append(out, rid)
			}
		}
	}
	return out
}

// ingest adds the resources of a resource set the client does not hold yet.
func (rc *RefClient) ingest(rs *resourceSet, t int64) (rids []string) {
	add := func(rid string, res *RCRes) {
		rids = append(rids, rid)
		if old, ok := rc.Cache[rid]; ok && !old.Deleted && !old.Tentative && old.Kind != RError {
			// Already held: a client keeps its existing instance.
			rc.Redundant++
			return
		}
		res.FromT = t
		delete(rc.LostInStray, rid)
		delete(rc.LostAfterGet, rid)
		rc.Cache[rid] = res
		rc.HandT[rid] = t
		rc.openInterval(rid, t, res)
	}
	for rid, raw := range rs.Models {
		var m map[string]interface{}
		if err := lenientUnmarshal(raw, &m); err != nil || m == nil {
			rc.viol("C02", t, rid, "badModel", "model %s in resource set is not an object: %s", rid, raw)
			continue
		}
		add(rid, &RCRes{Kind: RModel, M: m})
	}
	for rid, raw := range rs.Collections {
		var c []interface{}
		if err := lenientUnmarshal(raw, &c); err != nil || c == nil {
			if string(raw) != "[]" {
				rc.viol("C02", t, rid, "badCollection", "collection %s in resource set is not an array: %s", rid, raw)
				continue
			}
			c = []interface{}{}
		}
		add(rid, &RCRes{Kind: RColl, C: c})
	}
	for rid, raw := range rs.Errors {
		var e RErr
		if err := json.Unmarshal(raw, &e); err != nil || e.Code == nil || e.Message == nil {
			rc.viol("C07", t, rid, "badErrorObject", "error %s in resource set lacks string code/message: %s", rid, raw)
		}
		add(rid, &RCRes{Kind: RError, Err: &e})
	}
	return rids
}

// gc drops everything unreachable from the direct subscriptions and reports
// dangling references. fromGet lists rids delivered by a get response in this
// frame (they stay available for one more frame).
func (rc *RefClient) gc(t int64, fromGet []string) {
	reach := map[string]bool{}
	var stack []string
	visit := func() {
		for len(stack) > 0 {
			rid := stack[len(stack)-1]
			stack = stack[:len(stack)-1]
			for _, ref := range rc.Cache[rid].refs() {
				if reach[ref] {
					continue
				}
				if _, ok := rc.Cache[ref]; !ok {
					if p, ok := rc.pool[ref]; ok {
						rc.Cache[ref] = p
						rc.HandT[ref] = t
						rc.openInterval(ref, t, p)
					} else {
						rc.viol("C02", t, ref, "dangling", "resource %s holds a reference to %s which the client has neither data nor error for", rid, ref)
						rc.Viol[len(rc.Viol)-1].Holder = rid
						continue
					}
				}
				reach[ref] = true
				stack = append(stack, ref)
			}
		}
	}
	for rid, n := range rc.Direct {
		if n > 0 {
			if _, ok := rc.Cache[rid]; !ok {
				if p, ok := rc.pool[rid]; ok {
					rc.Cache[rid] = p
					rc.HandT[rid] = t
					rc.openInterval(rid, t, p)
				} else {
					rc.viol("C02", t, rid, "rootMissing", "directly subscribed resource %s has neither data nor error", rid)
					continue
				}
			}
			if !reach[rid] {
				reach[rid] = true
				stack = append(stack, rid)
			}
		}
	}
	visit()
	confirmed := map[string]bool{}
	for rid := range reach {
		confirmed[rid] = true
		rc.Cache[rid].Tentative = false
	}
	// A subscribe request that has been sent but not answered yet keeps the
	// resource (if the client has it) like a direct subscription: real
	// clients count the subscription when they send the request, and the
	// protocol does not say otherwise. What is kept only this way is
	// tentative: a later resource set may replace it.
	for id, sr := range rc.sent {
		if sr.T < t && rc.Responses[id] == 0 && strings.HasPrefix(sr.Method, "subscribe.") {
			rid := sr.Method[len("subscribe."):]
			if _, held := rc.Cache[rid]; held && !reach[rid] {
				reach[rid] = true
				stack = append(stack, rid)
			}
		}
	}
	for rid, x := range rc.Extra {
		if x > 0 && !reach[rid] {
			if _, held := rc.Cache[rid]; held {
				reach[rid] = true
				stack = append(stack, rid)
			}
		}
	}
	visit()
	for rid := range reach {
		if !confirmed[rid] {
			rc.Cache[rid].Tentative = true
			rc.EverTentative[rid] = true
		}
	}
	newPool := map[string]*RCRes{}
	isGet := map[string]bool{}
	for _, r := range fromGet {
		isGet[r] = true
	}
	var group []string
	for rid, res := range rc.Cache {
		if !reach[rid] {
			if isGet[rid] {
				newPool[rid] = res
			}
			delete(rc.Cache, rid)
			rc.DropT[rid] = t
			rc.closeInterval(rid, t)
			group = append(group, rid)
		}
	}
	for _, rid := range group {
		rc.DropGroup[rid] = group
	}
	for k, v := range rc.poolKeep {
		newPool[k] = v
	}
	rc.poolKeep = nil
	rc.pool = newPool
}

// Holds reports whether the client currently holds rid.
func (rc *RefClient) Holds(rid string) bool {
	_, ok := rc.Cache[rid]
	return ok
}

// splitEvent splits "<rid>.<event>".
func splitEvent(s string) (rid, ev string) {
	i := strings.LastIndexByte(s, '.')
	if i < 0 {
		return "", s
	}
	return s[:i], s[i+1:]
}

func methodParts(m string) (action, rid, method string) {
	i := strings.IndexByte(m, '.')
	if i < 0 {
		return m, "", ""
	}
	action = m[:i]
	rid = m[i+1:]
	if action == "call" || action == "auth" {
		j := strings.LastIndexByte(rid, '.')
		if j >= 0 {
			method = rid[j+1:]
			rid = rid[:j]
		}
	}
	return
}

// Process applies one frame.
func (rc *RefClient) Process(f *Frame) {
	if rc.Debug {
		defer func() {
			var pend []string
			for id, sr := range rc.sent {
				if rc.Responses[id] == 0 && !sr.Fence {
					pend = append(pend, fmt.Sprintf("%d:%s@%d", id, sr.Method, sr.T))
				}
			}
			sort.Strings(pend)
			fmt.Fprintf(os.Stderr, "RC conn=%d t=%d %s\n   retained=%v direct=%v pending=%v\n", rc.Conn, f.T, trunc200(f.Raw), rc.Retained(), rc.Direct, pend)
		}()
	}
	rc.Frames++
	if f.Bad {
		rc.viol("C15", f.T, "", "badFrame", "frame is not a JSON object: %s", f.Raw)
		return
	}
	if f.HasID {
		rc.processResponse(f)
		return
	}
	if f.Event != "" {
		rc.processEvent(f)
		return
	}
	if f.Error != nil {
		// error response without id: the gateway answers requests without an
		// id this way only if it could not read one; nothing to apply.
		return
	}
	rc.viol("C02", f.T, "", "unknownFrame", "frame is neither response nor event: %s", f.Raw)
}

func (rc *RefClient) processResponse(f *Frame) {
	id := *f.ID
	req := rc.sent[id]
	if req == nil {
		rc.viol("C07", f.T, "", "unknownID", "response for id %d that was never requested: %s", id, f.Raw)
		return
	}
	rc.Responses[id]++
	if rc.Responses[id] > 1 {
		rc.viol("C07", f.T, "", "dupResponse", "second response for id %d (%s): %s", id, req.Method, f.Raw)
		return
	}
	rc.RespFrame[id] = f
	if f.Fence || req.Fence {
		return
	}
	if f.Error != nil {
		if f.Error.Code == nil || f.Error.Message == nil {
			rc.viol("C07", f.T, "", "badErrorObject", "error response without string code/message: %s", f.Raw)
		}
		if f.HasRes {
			rc.viol("C07", f.T, "", "resultAndError", "response with both result and error: %s", f.Raw)
		}
		action, rid, _ := methodParts(req.Method)
		if action == "unsubscribe" {
			rc.noteUnsub(req, rid, false, f.Error.CodeStr())
		}
		rc.gc(f.T, nil)
		return
	}
	action, rid, _ := methodParts(req.Method)
	var fromGet []string
	switch action {
	case "version":
	case "subscribe":
		var rs resourceSet
		if len(f.Result) > 0 {
			json.Unmarshal(f.Result, &rs)
		}
		rc.ingest(&rs, f.T)
		rc.Direct[rid]++
	case "get":
		var rs resourceSet
		if len(f.Result) > 0 {
			json.Unmarshal(f.Result, &rs)
		}
		fromGet = rc.ingest(&rs, f.T)
		// The requested root must be part of the answer unless already held.
		// The gateway answers get requests with a delta against what it
		// believes the client was sent before (an overlapping get may have
		// delivered the root already); no property demands more, so this is
		// only counted.
		if _, ok := rc.Cache[rid]; !ok {
			rc.GetRootMissing++
		}
	case "unsubscribe":
		rc.noteUnsub(req, rid, true, "")
	case "call", "auth", "new":
		rc.processCallResult(f, action)
	}
	rc.gc(f.T, fromGet)
}

func unsubCount(req *SentReq) (count int, bad bool) {
	count = 1
	if len(req.Params) == 0 || string(req.Params) == "null" {
		return 1, false
	}
	var p struct {
		Count *json.RawMessage `json:"count"`
	}
	if err := json.Unmarshal(req.Params, &p); err != nil {
		return 0, true
	}
	if p.Count == nil || string(*p.Count) == "null" {
		return 1, false
	}
	var n int
	if err := json.Unmarshal(*p.Count, &n); err != nil {
		return 0, true
	}
	if n <= 0 {
		return n, true
	}
	return n, false
}

func (rc *RefClient) noteUnsub(req *SentReq, rid string, ok bool, code string) {
	count, bad := unsubCount(req)
	certain := rc.Extra[rid] == 0
	if rc.Overlap != nil && rc.Overlap(rid, req.ID) {
		certain = false
	}
	rc.Unsubs = append(rc.Unsubs, UnsubCheck{RID: rid, Count: count, BadParams: bad, Before: rc.Direct[rid], Certain: certain, OK: ok, Code: code})
	if ok {
		// the gateway held at least count: take them from the certain part
		// first, the rest from the uncertain part
		d := rc.Direct[rid]
		if count <= d {
			rc.Direct[rid] = d - count
		} else {
			rest := count - d
			rc.Direct[rid] = 0
			if rc.Extra[rid] >= rest {
				rc.Extra[rid] -= rest
			} else {
				rc.Extra[rid] = 0
			}
		}
		// a success proves the uncertain part existed up to count-d; what is
		// left of it stays uncertain
	} else if code == "system.noSubscription" && !bad {
		// the gateway holds fewer than count
		if rc.Direct[rid]+rc.Extra[rid] >= count {
			x := count - 1 - rc.Direct[rid]
			if x < 0 {
				x = 0
			}
			rc.Extra[rid] = x
		}
	}
}

func (rc *RefClient) processCallResult(f *Frame, action string) {
	// Below 1.2.0 call/auth results are the raw service result, or a bare
	// {rid} without subscription for resource responses.
	if action != "new" && rc.Ver < Ver120 {
		return
	}
	var res struct {
		RID     *string          `json:"rid"`
		Payload *json.RawMessage `json:"payload"`
	}
	if len(f.Result) == 0 || json.Unmarshal(f.Result, &res) != nil {
		return
	}
	if res.RID == nil {
		return
	}
	rid := *res.RID
	var rs resourceSet
	json.Unmarshal(f.Result, &rs)
	rc.ingest(&rs, f.T)
	if _, isErr := rs.Errors[rid]; isErr {
		// The frame does not tell whether the gateway kept a direct
		// subscription (it does for a failed get, not for denied access).
		if rc.RootErrorKeeps != nil {
			if keeps, known := rc.RootErrorKeeps(rid, f.T); known {
				if keeps {
					rc.Direct[rid]++
				}
				return
			}
		}
		rc.Extra[rid]++
		return
	}
	rc.Direct[rid]++
}

func (rc *RefClient) processEvent(f *Frame) {
	rc.Events++
	rid, ev := splitEvent(f.Event)
	res, held := rc.Cache[rid]
	if !held {
		sig := "strayEvent"
		if p, ok := rc.pool[rid]; ok {
			// delivered by a get response in the directly preceding frame(s)
			sig = "strayEvent.afterGet"
			if ev == "change" || ev == "add" || ev == "remove" || ev == "delete" {
				p.MissedStray = true
			}
			// the flush may continue with events for the other resources of
			// the same get response: keep the whole pool one more frame
			rc.poolKeep = map[string]*RCRes{}
			for k, v := range rc.pool {
				rc.poolKeep[k] = v
			}
		}
		rc.viol("C02", f.T, rid, sig, "event %s for a resource the client does not hold: %s", f.Event, f.Raw)
		// A client ignores an event for a resource it does not hold - together
		// with the resources that event carries. What goes wrong for those
		// later is a consequence of this stray event.
		var rs resourceSet
		if json.Unmarshal(f.Data, &rs) == nil {
			for _, m := range []map[string]json.RawMessage{rs.Models, rs.Collections, rs.Errors} {
				for r := range m {
					if _, held := rc.Cache[r]; !held {
						rc.LostInStray[r] = rid
						if sig == "strayEvent.afterGet" || rc.LostAfterGet[rid] {
							rc.LostAfterGet[r] = true
						}
					}
				}
			}
		}
		if ev == "unsubscribe" {
			rc.Direct[rid] = 0
			rc.Extra[rid] = 0
		}
		rc.gc(f.T, nil)
		return
	}
	if len(rc.pool) > 0 {
		// the events the gateway flushes after a get response come as one run,
		// for held and not held resources alike: the resources of that get stay
		// available until the run of event frames ends
		rc.poolKeep = map[string]*RCRes{}
		for k, v := range rc.pool {
			rc.poolKeep[k] = v
		}
	}
	rc.Delivered[rid] = append(rc.Delivered[rid], DelivEv{T: f.T, Event: ev, Data: f.Data})
	switch ev {
	case "change":
		if res.Kind != RModel {
			rc.viol("C02", f.T, rid, "changeOnNonModel", "change event on a non-model: %s", f.Raw)
			break
		}
		var d struct {
			Values map[string]interface{} `json:"values"`
		}
		var rs resourceSet
		if err := lenientUnmarshal(f.Data, &d); err != nil || d.Values == nil {
			rc.viol("C02", f.T, rid, "badChange", "change event without values object: %s", f.Raw)
			break
		}
		json.Unmarshal(f.Data, &rs)
		rc.ingest(&rs, f.T)
		for k, v := range d.Values {
			if m, ok := v.(map[string]interface{}); ok {
				if a, ok := m["action"].(string); ok && a == "delete" {
					delete(res.M, k)
					continue
				}
			}
			res.M[k] = v
		}
	case "add":
		if res.Kind != RColl {
			rc.viol("C02", f.T, rid, "addOnNonCollection", "add event on a non-collection: %s", f.Raw)
			break
		}
		var d struct {
			Idx   *int        `json:"idx"`
			Value interface{} `json:"value"`
		}
		var rs resourceSet
		if err := lenientUnmarshal(f.Data, &d); err != nil || d.Idx == nil {
			rc.viol("C02", f.T, rid, "badAdd", "add event without idx: %s", f.Raw)
			break
		}
		json.Unmarshal(f.Data, &rs)
		rc.ingest(&rs, f.T)
		idx := *d.Idx
		if idx < 0 || idx > len(res.C) {
			rc.viol("C02", f.T, rid, "addIdxRange", "add idx %d outside client collection of length %d: %s", idx, len(res.C), f.Raw)
			break
		}
		c := make([]interface{}, 0, len(res.C)+1)
		c = append(c, res.C[:idx]...)
		c = append(c, d.Value)
		c = append(c, res.C[idx:]...)
		res.C = c
	case "remove":
		if res.Kind != RColl {
			rc.viol("C02", f.T, rid, "removeOnNonCollection", "remove event on a non-collection: %s", f.Raw)
			break
		}
		var d struct {
			Idx *int `json:"idx"`
		}
		if err := lenientUnmarshal(f.Data, &d); err != nil || d.Idx == nil {
			rc.viol("C02", f.T, rid, "badRemove", "remove event without idx: %s", f.Raw)
			break
		}
		idx := *d.Idx
		if idx < 0 || idx >= len(res.C) {
			rc.viol("C02", f.T, rid, "removeIdxRange", "remove idx %d outside client collection of length %d: %s", idx, len(res.C), f.Raw)
			break
		}
		c := make([]interface{}, 0, len(res.C)-1)
		c = append(c, res.C[:idx]...)
		c = append(c, res.C[idx+1:]...)
		res.C = c
	case "delete":
		res.Deleted = true
	case "unsubscribe":
		rc.UnsubEvents = append(rc.UnsubEvents, DelivEv{T: f.T, Event: rid, Data: f.Data})
		var d struct {
			Reason *RErr `json:"reason"`
		}
		if err := json.Unmarshal(f.Data, &d); err != nil || d.Reason == nil || d.Reason.Code == nil {
			rc.viol("C06", f.T, rid, "unsubNoReason", "unsubscribe event without reason: %s", f.Raw)
		}
		if rc.Direct[rid] == 0 && rc.Extra[rid] == 0 {
			// a subscribe/get on the rid, or a call/auth/new whose response may
			// name it, that is still unanswered counts as a direct subscription
			// at the gateway from the moment it is received: the event then
			// announces the end of that one
			pendingOnRID := false
			for id, sr := range rc.sent {
				if sr.Fence || rc.Responses[id] != 0 {
					continue
				}
				switch action, r, _ := methodParts(sr.Method); action {
				case "subscribe", "get":
					pendingOnRID = pendingOnRID || r == rid
				case "call", "auth", "new":
					pendingOnRID = true
				}
			}
			if pendingOnRID {
				rc.UnsubEventOnPending++
			} else {
				rc.viol("C08", f.T, rid, "unsubEventNoDirect", "unsubscribe event for %s although the client has no direct subscription", rid)
			}
		}
		rc.Direct[rid] = 0
		rc.Extra[rid] = 0
	}
	rc.gc(f.T, nil)
}

// Retained returns the sorted rids the client currently holds.
func (rc *RefClient) Retained() []string {
	out := make([]string, 0, len(rc.Cache))
	for rid := range rc.Cache {
		out = append(out, rid)
	}
	sort.Strings(out)
	return out
}

// ReachableAvoiding reports whether rid is reachable from the client's direct
// subscriptions (confirmed or requested) without passing through a resource for
// which avoid returns true.
func (rc *RefClient) ReachableAvoiding(rid string, avoid func(string) bool) bool {
	seen := map[string]bool{}
	var stack []string
	push := func(r string) {
		if seen[r] || rc.Cache[r] == nil {
			return
		}
		seen[r] = true
		stack = append(stack, r)
	}
	for r, n := range rc.Direct {
		if n > 0 {
			push(r)
		}
	}
	for _, sr := range rc.sent {
		if strings.HasPrefix(sr.Method, "subscribe.") {
			push(sr.Method[len("subscribe."):])
		}
	}
	for len(stack) > 0 {
		r := stack[len(stack)-1]
		stack = stack[:len(stack)-1]
		if r == rid {
			return true
		}
		if avoid(r) {
			continue
		}
		for _, ref := range rc.Cache[r].refs() {
			push(ref)
		}
	}
	return false
}

// State returns the client's copy of rid in comparable form.
func (rc *RefClient) State(rid string) interface{} {
	r := rc.Cache[rid]
	if r == nil {
		return nil
	}
	switch r.Kind {
	case RModel:
		return r.M
	case RColl:
		return r.C
	}
	return nil
}

// JSONEqual compares two decoded JSON values.
func JSONEqual(a, b interface{}) bool {
	if s, ok := a.([]interface{}); ok && len(s) == 0 {
		if t, ok := b.([]interface{}); ok && len(t) == 0 {
			return true
		}
	}
	return reflect.DeepEqual(a, b)
}

// Compact renders a value as compact JSON for messages.
func Compact(v interface{}) string {
	b, _ := json.Marshal(v)
	if len(b) > 400 {
		return string(b[:400]) + "..."
	}
	return string(b)
}

func trunc200(b []byte) string {
	if len(b) > 200 {
		return string(b[:200]) + "..."
	}
	return string(b)
}

// HeldInterval is a period during which the client held a resource.
type HeldInterval struct {
	From  int64 // clock of the frame that handed the resource over
	To    int64 // clock of the frame after which it was dropped (0 = still held)
	Stamp interface{}
	IsErr bool // the client held an error placeholder, not data
}

func (rc *RefClient) openInterval(rid string, t int64, res *RCRes) {
	iv := HeldInterval{From: t, IsErr: res != nil && res.Kind == RError}
	if res != nil && res.Kind == RModel {
		iv.Stamp = res.M["_s"]
	}
	l := rc.Held[rid]
	if n := len(l); n > 0 && l[n-1].To == 0 {
		// re-delivery while held (replacement of tentative/deleted data)
		l[n-1].To = t
	}
	rc.Held[rid] = append(l, iv)
}

func (rc *RefClient) closeInterval(rid string, t int64) {
	l := rc.Held[rid]
	if n := len(l); n > 0 && l[n-1].To == 0 {
		l[n-1].To = t
	}
}

// TargetPendingAt reports whether, at clock t, a request of this connection
// that establishes a direct subscription on rid itself was sent but not yet
// answered: subscribe/get on rid, or a call/auth/new request whose (later)
// resource response names rid.
func (rc *RefClient) TargetPendingAt(rid string, t int64) bool {
	grp := map[string]bool{rid: true}
	for _, g := range rc.DropGroup[rid] {
		grp[g] = true
	}
	for id, sr := range rc.sent {
		if sr.Fence || sr.T >= t {
			continue
		}
		f := rc.RespFrame[id]
		if f != nil && f.T < t {
			continue
		}
		action, r, _ := methodParts(sr.Method)
		switch action {
		case "subscribe", "get":
			if grp[r] {
				return true
			}
		case "call", "auth", "new":
			if f != nil && f.Error == nil {
				var res struct {
					RID *string `json:"rid"`
				}
				if json.Unmarshal(f.Result, &res) == nil && res.RID != nil && grp[*res.RID] {
					return true
				}
			}
		}
	}
	return false
}
