package vg

import (
	"encoding/json"
	"fmt"
	"net/http"
	"net/url"
	"sort"
	"strings"

	"github.com/resgateio/resgate/server"
)

// httpPolicy decides how an outstanding service request is answered during an
// HTTP exchange; returning false leaves it to the default policy.
type httpPolicy func(r *BusReq) bool

// httpExchange serves one HTTP request to completion, answering service
// requests with the policy or the defaults (access granted, get from the
// world, call/auth result {"ok":true}).
func httpExchange(g *Gate, w *World, method, target string, body []byte, hdr http.Header, pol httpPolicy) (*HTTPCall, error) {
	hc := g.HTTPDo(method, target, body, hdr, true)
	for i := 0; i < 10000; i++ {
		if err := g.Quiesce(QOpts{AllowOutstanding: true}); err != nil {
			return hc, err
		}
		if hc.Done() {
			break
		}
		out := g.Bus.Outstanding()
		if len(out) == 0 {
			if hc.Done() {
				break
			}
			return hc, fmt.Errorf("HTTP request unfinished with nothing outstanding")
		}
		r := out[0]
		if pol != nil && pol(r) {
			continue
		}
		switch r.Kind {
		case "access":
			g.Bus.Reply(r, []byte(`{"result":{"get":true,"call":"*"}}`), nil)
		case "get":
			name := r.Name
			g.Bus.Reply(r, nil, func() []byte { return w.GetResponse(name) })
		default:
			g.Bus.Reply(r, []byte(`{"result":{"ok":true}}`), nil)
		}
	}
	// drain what is left (late gets of a request that already ended)
	for _, r := range g.Bus.Outstanding() {
		if pol != nil && pol(r) {
			continue
		}
		g.Bus.Timeout(r)
	}
	if err := g.Quiesce(QOpts{}); err != nil {
		return hc, err
	}
	return hc, nil
}

// refRIDToPath is the reference conversion of a resource id to an API path.
func refRIDToPath(rid, apiPath string) string {
	parts := strings.Split(rid, ".")
	for i, p := range parts {
		parts[i] = url.PathEscape(p)
	}
	return apiPath + strings.Join(parts, "/")
}

// refRender renders the recursive expansion of a resource as the HTTP API
// must return it. wrap selects the json encoding's {href, model|collection|error}
// wrapper for referenced resources; flat renders bare content.
func refRender(w *World, rid string, flat bool, apiPath string) interface{} {
	var path []string
	var rec func(rid string, wrap bool) interface{}
	val := func(v Val) interface{} {
		switch v.Kind {
		case VRef:
			return rec(v.RID, true)
		case VSoft:
			return map[string]interface{}{"href": refRIDToPath(v.RID, apiPath)}
		case VData:
			var x interface{}
			mustUnmarshal(v.JSON, &x)
			return x
		}
		var x interface{}
		mustUnmarshal(v.JSON, &x)
		return x
	}
	rec = func(rid string, wrap bool) interface{} {
		href := refRIDToPath(rid, apiPath)
		for _, p := range path {
			if p == rid {
				return map[string]interface{}{"href": href}
			}
		}
		name, _ := ridName(rid)
		r := w.Get(name)
		var content interface{}
		kind := "error"
		if r == nil || r.Deleted {
			content = map[string]interface{}{"code": "system.notFound", "message": "Not found"}
		} else if r.Kind == RError {
			content = map[string]interface{}{"code": r.ErrCode, "message": r.ErrMsg}
		} else {
			path = append(path, rid)
			if r.Kind == RModel {
				kind = "model"
				m := map[string]interface{}{}
				keys := make([]string, 0, len(r.M))
				for k := range r.M {
					keys = append(keys, k)
				}
				sort.Strings(keys)
				for _, k := range keys {
					m[normKey(k)] = val(r.M[k])
				}
				content = m
			} else {
				kind = "collection"
				c := make([]interface{}, len(r.C))
				for i, v := range r.C {
					c[i] = val(v)
				}
				content = c
			}
			path = path[:len(path)-1]
		}
		if !wrap || flat {
			return content
		}
		return map[string]interface{}{"href": href, kind: content}
	}
	return rec(rid, false)
}

// normKey is how a JSON object key survives a decode/encode round trip
// (invalid UTF-8 becomes U+FFFD).
func normKey(k string) string {
	b, _ := json.Marshal(k)
	var s string
	json.Unmarshal(b, &s)
	return s
}

type graphSpec struct {
	N      int      `json:"n"`
	Kinds  []string `json:"kinds"` // m, c, e
	Adj    []int    `json:"adj"`   // edges i*n+j
	Flat   bool     `json:"flat"`
	API    string   `json:"api"`
	Extras bool     `json:"extras"`
	Seed   uint64   `json:"seed"`
}

var hostileKeys = []string{"plain", "quote\"", "back\\slash", " line", "ctl\x01", "tab\t", "é", "", "a.b", "href", "\xffbad"}

// buildGraphWorld populates a world from a graph specification.
func buildGraphWorld(w *World, gs graphSpec) {
	r := NewRng(gs.Seed)
	name := func(i int) string { return fmt.Sprintf("g.n%d", i) }
	for i := 0; i < gs.N; i++ {
		switch gs.Kinds[i] {
		case "e":
			w.AddErr(name(i), "g.broken", "Broken \"resource\"")
		case "c":
			var c []Val
			if gs.Extras {
				c = append(c, P(r.Intn(10)))
			}
			for j := 0; j < gs.N; j++ {
				if gs.Adj[i*gs.N+j] != 0 {
					c = append(c, Ref(name(j)))
					if gs.Extras && r.Chance(30) {
						c = append(c, Ref(name(j)))
					}
				}
			}
			if gs.Extras {
				if r.Chance(50) {
					c = append(c, Soft(name(r.Intn(gs.N))))
				}
				if r.Chance(50) {
					c = append(c, Data(`{"nested":[1,{"rid":"x"}]}`))
				}
				if r.Chance(30) {
					c = append(c, Data(`"primitive inner"`))
				}
				if r.Chance(30) {
					c = append(c, P("str \" \\  "))
				}
			}
			w.AddColl(name(i), c)
		default:
			m := map[string]Val{}
			for j := 0; j < gs.N; j++ {
				if gs.Adj[i*gs.N+j] != 0 {
					m[fmt.Sprintf("e%d", j)] = Ref(name(j))
				}
			}
			if gs.Extras {
				for k := r.Intn(4); k > 0; k-- {
					key := hostileKeys[r.Intn(len(hostileKeys))]
					switch r.Intn(5) {
					case 0:
						m[key] = Soft(name(r.Intn(gs.N)))
					case 1:
						m[key] = Data(`[{"deep":{"deeper":[null]}}]`)
					case 2:
						m[key] = Ref(name(r.Intn(gs.N)))
					case 3:
						m[key] = P(nil)
					default:
						m[key] = P(fmt.Sprintf("v%d", r.Intn(100)))
					}
				}
			} else {
				m["p"] = P(i)
			}
			w.AddModel(name(i), m)
		}
	}
}

func decodeBody(b []byte) (interface{}, bool) {
	if !json.Valid(b) {
		return nil, false
	}
	var v interface{}
	if json.Unmarshal(b, &v) != nil {
		return nil, false
	}
	return v, true
}

// c16Graph checks GET on the root of one graph against the reference rendering.
func c16Graph(c *RunCtx, gs graphSpec) {
	enc := "json"
	if gs.Flat {
		enc = "jsonflat"
	}
	api := gs.API
	if api == "" {
		api = "/api"
	}
	g, err := NewGate(GateOpts{Seed: gs.Seed, Pct: 0, Cfg: func(cfg *server.Config) {
		cfg.APIEncoding = enc
		cfg.APIPath = api
	}})
	if err != nil {
		c.Inconclusive("gate: " + err.Error())
		return
	}
	defer g.Stop()
	w := NewWorld(g.Bus)
	buildGraphWorld(w, gs)
	apiPath := api
	if !strings.HasSuffix(apiPath, "/") {
		apiPath += "/"
	}
	target := "http://localhost" + apiPath + "g/n0"
	hc, err := httpExchange(g, w, "GET", target, nil, nil, nil)
	c.Eval(1)
	wit := map[string]interface{}{"kind": "graph", "spec": gs}
	if err != nil {
		if strings.Contains(err.Error(), "watchdog") {
			c.Inconclusive(fmt.Sprintf("C16 graph %+v: %v", gs, err))
		} else {
			c.Violation(VReport{Prop: "C16", Sig: "getDidNotFinish", Msg: fmt.Sprintf("GET %s did not finish: %v", target, err), Witness: wit})
		}
		return
	}
	body := hc.Rec.Body.Bytes()
	root := w.Get("g.n0")
	if root.Kind == RError {
		if hc.Rec.Code != 400 {
			c.Violation(VReport{Prop: "C16", Sig: "rootErrorStatus", Msg: fmt.Sprintf("GET on a failing root answered %d %s", hc.Rec.Code, body), Witness: wit})
		}
		return
	}
	if hc.Rec.Code != 200 {
		c.Violation(VReport{Prop: "C16", Sig: "getStatus", Msg: fmt.Sprintf("GET %s answered %d %s", target, hc.Rec.Code, trunc200(body)), Witness: wit})
		return
	}
	got, ok := decodeBody(body)
	if !ok {
		c.Violation(VReport{Prop: "C16", Sig: "malformedJSON", Msg: fmt.Sprintf("GET %s body is not well-formed JSON: %s", target, trunc200(body)), Witness: wit})
		return
	}
	want := refRender(w, "g.n0", gs.Flat, apiPath)
	if !JSONEqual(got, want) {
		c.Violation(VReport{Prop: "C16", Sig: "renderMismatch", Msg: fmt.Sprintf("GET %s (%s) body %s differs from the reference expansion %s", target, enc, trunc200(body), Compact(want)), Witness: wit})
		return
	}
	if ct := hc.Rec.Header().Get("Content-Type"); !strings.HasPrefix(ct, "application/json") {
		c.Violation(VReport{Prop: "C16", Sig: "contentType", Msg: "GET content type " + ct, Witness: wit})
	}
	// HEAD is handled exactly as GET (status and headers)
	hh, err := httpExchange(g, w, "HEAD", target, nil, nil, nil)
	if err == nil {
		if hh.Rec.Code != hc.Rec.Code || hh.Rec.Header().Get("Content-Type") != hc.Rec.Header().Get("Content-Type") {
			c.Violation(VReport{Prop: "C16", Sig: "headDiffers", Msg: fmt.Sprintf("HEAD answered %d %v, GET %d %v", hh.Rec.Code, hh.Rec.Header(), hc.Rec.Code, hc.Rec.Header()), Witness: wit})
		}
	}
}

func c16Graphs(c *RunCtx) {
	idx := 0
	var nontrivial int64
	// exhaustive: all digraphs on 1..3 nodes x {model, collection} typings x both encodings
	maxN := 3
	for n := 1; n <= maxN; n++ {
		for adj := 0; adj < 1<<(n*n); adj++ {
			for typ := 0; typ < 1<<n; typ++ {
				for enc := 0; enc < 2; enc++ {
					idx++
					if !c.Mine(idx) {
						continue
					}
					if !c.Thorough() && n == 3 && (adj*7+typ)%4 != int(c.Seed%4) {
						continue // quick tier: a quarter of the 3-node graphs per seed
					}
					gs := graphSpec{N: n, Flat: enc == 1, Seed: uint64(idx)}
					for i := 0; i < n; i++ {
						if typ&(1<<i) != 0 {
							gs.Kinds = append(gs.Kinds, "c")
						} else {
							gs.Kinds = append(gs.Kinds, "m")
						}
					}
					edges := 0
					for b := 0; b < n*n; b++ {
						bit := (adj >> b) & 1
						gs.Adj = append(gs.Adj, bit)
						edges += bit
					}
					c.WAL("C16 graph %+v", gs)
					c16Graph(c, gs)
					if edges > 0 {
						nontrivial++
					}
					if idx%500 == 1 {
						c.Sample(map[string]interface{}{"layer": "graph", "spec": gs})
					}
				}
			}
		}
	}
	c.Rep.DistinctN += nontrivial
	if c.Thorough() {
		c.Rep.Exhaustive = true
	}
	// random larger graphs with error leaves, soft refs, data values, hostile keys, apiPaths
	r := NewRng(c.Seed ^ 0xc16)
	nr := c.N(1500, 40000)
	apis := []string{"/api", "/", "/a/b/", "/api/v1"}
	for i := 0; i < nr; i++ {
		seed := r.U64()
		if !c.Mine(i) {
			continue
		}
		rr := NewRng(seed)
		n := 2 + rr.Intn(9)
		gs := graphSpec{N: n, Flat: rr.Chance(50), API: apis[rr.Intn(len(apis))], Extras: true, Seed: seed}
		for k := 0; k < n; k++ {
			switch x := rr.Intn(10); {
			case k > 0 && x == 0:
				gs.Kinds = append(gs.Kinds, "e")
			case x < 5:
				gs.Kinds = append(gs.Kinds, "c")
			default:
				gs.Kinds = append(gs.Kinds, "m")
			}
		}
		dens := 10 + rr.Intn(35)
		for b := 0; b < n*n; b++ {
			if rr.Chance(dens) {
				gs.Adj = append(gs.Adj, 1)
			} else {
				gs.Adj = append(gs.Adj, 0)
			}
		}
		c.WAL("C16 graph %+v", gs)
		c16Graph(c, gs)
		c.Distinct(Hash64(fmt.Sprint(gs.Kinds, gs.Adj, gs.Flat, gs.API)))
	}
}

// c16Post checks POST results: verbatim, 204 for null, Location for resource responses.
func c16Post(c *RunCtx) {
	if c.Shard != 0 {
		return
	}
	results := []string{`{"a":1}`, `[1,2,{"x":null}]`, `"str"`, `12.50`, `true`, `null`, `{"nested":{"deep":[[],{}]}}`, `{"rid":"looks.like.a.ref","x":1}`, `  {"spaced" : 1 }`, `""`, `0`, `{"k\"q":" "}`}
	for _, enc := range []string{"json", "jsonflat"} {
		for _, api := range []string{"/api", "/x/"} {
			g, err := NewGate(GateOpts{Cfg: func(cfg *server.Config) {
				cfg.APIEncoding = enc
				cfg.APIPath = api
			}})
			if err != nil {
				c.Inconclusive(err.Error())
				return
			}
			w := NewWorld(g.Bus)
			apiPath := api
			if !strings.HasSuffix(apiPath, "/") {
				apiPath += "/"
			}
			for _, res := range results {
				res := res
				hc, err := httpExchange(g, w, "POST", "http://localhost"+apiPath+"svc/model/act", []byte(`{"p":1}`), nil, func(r *BusReq) bool {
					if r.Kind == "call" {
						g.Bus.Reply(r, []byte(`{"result":`+res+`}`), nil)
						return true
					}
					return false
				})
				c.Eval(1)
				c.Distinct(Hash64("post", enc, api, res))
				wit := map[string]interface{}{"kind": "post", "result": res, "enc": enc, "api": api}
				if err != nil {
					c.Violation(VReport{Prop: "C16", Sig: "postDidNotFinish", Msg: err.Error(), Witness: wit})
					continue
				}
				if strings.TrimSpace(res) == "null" {
					if hc.Rec.Code != 204 || hc.Rec.Body.Len() != 0 {
						c.Violation(VReport{Prop: "C16", Sig: "postNull", Msg: fmt.Sprintf("POST with null result answered %d %q", hc.Rec.Code, hc.Rec.Body.String()), Witness: wit})
					}
					continue
				}
				if hc.Rec.Code != 200 {
					c.Violation(VReport{Prop: "C16", Sig: "postStatus", Msg: fmt.Sprintf("POST answered %d %s", hc.Rec.Code, hc.Rec.Body.String()), Witness: wit})
					continue
				}
				if hc.Rec.Body.String() != strings.TrimSpace(res) {
					c.Violation(VReport{Prop: "C16", Sig: "postNotVerbatim", Msg: fmt.Sprintf("POST body %q is not the service result %q verbatim", hc.Rec.Body.String(), res), Witness: wit})
				}
			}
			// resource response
			for _, rid := range []string{"svc.created.1", "svc.q?x=1&y=2", "svc.sp%20ace", "svc.{cid}.x"} {
				rid := rid
				rb, _ := json.Marshal(rid)
				hc, err := httpExchange(g, w, "POST", "http://localhost"+apiPath+"svc/model/new", nil, nil, func(r *BusReq) bool {
					if r.Kind == "call" {
						g.Bus.Reply(r, []byte(`{"resource":{"rid":`+string(rb)+`}}`), nil)
						return true
					}
					return false
				})
				c.Eval(1)
				c.Distinct(Hash64("postres", enc, api, rid))
				wit := map[string]interface{}{"kind": "postres", "rid": rid, "enc": enc, "api": api}
				if err != nil {
					c.Violation(VReport{Prop: "C16", Sig: "postDidNotFinish", Msg: err.Error(), Witness: wit})
					continue
				}
				loc := hc.Rec.Header().Get("Location")
				want := apiPath + strings.Replace(url.PathEscape(rid), ".", "/", -1)
				if hc.Rec.Code != 200 || loc != want {
					c.Violation(VReport{Prop: "C16", Sig: "postLocation", Msg: fmt.Sprintf("POST with resource response %q answered %d Location %q, want 200 Location %q", rid, hc.Rec.Code, loc, want), Witness: wit})
				}
			}
			g.Stop()
		}
	}
}
