package vg

import "hash/fnv"

// Rng is a small deterministic splitmix64 generator.
type Rng struct{ s uint64 }

// NewRng seeds a generator.
func NewRng(seed uint64) *Rng {
	x := seed + 0x632be59bd9b4e019
	x = (x ^ (x >> 30)) * 0xbf58476d1ce4e5b9
	x = (x ^ (x >> 27)) * 0x94d049bb133111eb
	return &Rng{s: x ^ (x >> 31)}
}

// U64 returns the next value.
func (r *Rng) U64() uint64 {
	r.s += 0x9e3779b97f4a7c15
	x := r.s
	x = (x ^ (x >> 30)) * 0xbf58476d1ce4e5b9
	x = (x ^ (x >> 27)) * 0x94d049bb133111eb
	return x ^ (x >> 31)
}

// Intn returns a value in [0,n).
func (r *Rng) Intn(n int) int {
	if n <= 0 {
		return 0
	}
	return int(r.U64() % uint64(n))
}

// Chance returns true with pct percent probability.
func (r *Rng) Chance(pct int) bool { return r.Intn(100) < pct }

// Fork derives an independent generator.
func (r *Rng) Fork() *Rng { return NewRng(r.U64()) }

// Weighted picks an index according to weights.
func (r *Rng) Weighted(w []int) int {
	t := 0
	for _, x := range w {
		if x > 0 {
			t += x
		}
	}
	if t == 0 {
		return 0
	}
	k := r.Intn(t)
	for i, x := range w {
		if x <= 0 {
			continue
		}
		if k < x {
			return i
		}
		k -= x
	}
	return len(w) - 1
}

// Hash64 hashes strings to 64 bits.
func Hash64(parts ...string) uint64 {
	h := fnv.New64a()
	for _, p := range parts {
		h.Write([]byte(p))
		h.Write([]byte{0})
	}
	return h.Sum64()
}
