package vg

import (
	"fmt"

	"github.com/resgateio/resgate/server"
)

// c08Limit drives one connection up to the per-resource limit of direct
// subscriptions and beyond. Requests refused at the limit must leave no
// subscription behind: the protocol accounting of the reference client (a
// refused request counts nothing) is compared with the gateway's counters by
// the generic quiescent-point monitor (directMismatch), unsubscribe with a
// count above what was granted must fail, and after releasing what was granted
// the resource must be gone (residue, cache structure, gauges).
func c08Limit(c *RunCtx) {
	type lcase struct {
		Extra  string `json:"extra"`
		N      int    `json:"n"`
		Before int    `json:"before"` // direct subscriptions made first
	}
	var cases []lcase
	lim := server.SubscriptionCountLimit
	for _, extra := range []string{"subscribe", "get", "callres", "new"} {
		for _, n := range []int{1, 3} {
			for _, before := range []int{lim - 1, lim} {
				cases = append(cases, lcase{Extra: extra, N: n, Before: before})
			}
		}
	}
	for i, cs := range cases {
		if !c.Mine(i) {
			continue
		}
		c.WAL("c08limit %+v", cs)
		wit := map[string]interface{}{"kind": "c08limit", "case": cs}
		s := NewScript(HistCfg{Seed: 8, Metrics: true})
		if !s.ok {
			c.Inconclusive("C08 limit: " + s.res.Inconclusive)
			continue
		}
		g := s.Gate()
		w := s.World()
		w.AddModel("t.a", map[string]Val{"x": P(1)})
		w.AddModel("t.b", map[string]Val{"y": P(2)})
		cl := s.Connect("1.2.3")
		if cl == nil {
			g.Stop()
			continue
		}
		for k := 0; k < cs.Before; k++ {
			s.Req(cl, "subscribe.t.a", nil)
			if k%32 == 31 {
				s.Settle()
			}
		}
		s.Settle()
		for k := 0; k < cs.N; k++ {
			switch cs.Extra {
			case "subscribe":
				s.Req(cl, "subscribe.t.a", nil)
			case "get":
				s.Req(cl, "get.t.a", nil)
			case "callres":
				id := s.Req(cl, "call.t.b.goto", map[string]string{"t": "t.a"})
				s.h.reqTarget[cl.Idx][id] = "t.a"
			case "new":
				id := s.Req(cl, "new.t.b", map[string]string{"t": "t.a"})
				s.h.reqTarget[cl.Idx][id] = "t.a"
			}
			s.Settle()
		}
		rc := s.RC(cl)
		granted := rc.Direct["t.a"]
		c.Stat("c08limit_granted", int64(granted))
		if s.ok {
			// more than was granted cannot be released
			idOver := s.Req(cl, "unsubscribe.t.a", map[string]int{"count": granted + 1})
			s.Settle()
			if f := rc.RespFrame[idOver]; f != nil && f.Error == nil {
				s.Fail("C08", "unsubscribeAboveGranted", "unsubscribe with count %d succeeded although only %d subscriptions on t.a were granted", granted+1, granted)
			}
			// releasing what was granted releases the resource
			if granted > 0 {
				s.Req(cl, "unsubscribe.t.a", map[string]int{"count": rc.Direct["t.a"]})
				s.Settle()
			}
			w.Change("t.a", map[string]*Val{"x": vp(P(2))})
			s.Settle()
		}
		res := s.Finish()
		g.CloseAll()
		g.Stop()
		c.Eval(1)
		c.Distinct(Hash64(fmt.Sprintf("%+v", cs)))
		c.Stat("limit_cases", 1)
		if res.Inconclusive != "" {
			c.Inconclusive(fmt.Sprintf("C08 limit %+v: %s", cs, res.Inconclusive))
		}
		seen := map[string]bool{}
		for _, v := range res.Viol {
			if seen[v.Prop+v.Sig] {
				continue
			}
			seen[v.Prop+v.Sig] = true
			c.Violation(VReport{Prop: v.Prop, Sig: v.Sig, RID: v.RID, Msg: fmt.Sprintf("%+v: %s", cs, v.Msg), Witness: wit})
		}
		c.Counters(res.Counters)
	}
}
