package vg

import (
	"encoding/json"
	"fmt"
	"strings"
	"sync"
	"sync/atomic"
	"time"

	"verif/internal/natsfake"

	rnats "github.com/resgateio/resgate/nats"
	"github.com/resgateio/resgate/server/reserr"
	"github.com/resgateio/resgate/server/verifhook"
)

type c18Req struct {
	ID        int
	Behaviour string
	Subject   string
	SentAt    time.Time
	mu        sync.Mutex
	Done      []c18Done
}

type c18Done struct {
	At      time.Time
	Payload string
	Err     string
}

var c18Behaviours = []string{"reply1", "reply2", "none", "pre-reply", "pre-none", "pre-pre-none", "503", "race", "late", "toolong"}

// c18Round runs one batch of concurrent requests and an event stream against
// the real adapter connected to the fake server.
// Verdicts that compare with wall-clock deadlines ("the reply should have
// arrived before the timeout") go to timing when it is not nil instead of being
// reported: the caller repeats such a round and reports them only if they show
// again (a logic defect repeats, a stalled process does not).
func c18Round(c *RunCtx, seed uint64, nreq int, dropAt int, timing *[]VReport) {
	wit := map[string]interface{}{"kind": "c18round", "seed": seed, "requests": nreq, "drop_at": dropAt}
	fail := func(sig, format string, a ...interface{}) {
		c.Violation(VReport{Prop: "C18", Sig: sig, Msg: fmt.Sprintf("[seed=%d n=%d] ", seed, nreq) + fmt.Sprintf(format, a...), Witness: wit})
	}
	failTiming := func(sig, format string, a ...interface{}) {
		v := VReport{Prop: "C18", Sig: sig, Msg: fmt.Sprintf("[seed=%d n=%d] ", seed, nreq) + fmt.Sprintf(format, a...), Witness: wit}
		if timing != nil {
			*timing = append(*timing, v)
			return
		}
		c.Violation(v)
	}
	rr := NewRng(seed)
	verifhook.Configure(seed, 25, nil)
	srv, err := natsfake.New()
	if err != nil {
		c.Inconclusive("natsfake: " + err.Error())
		return
	}
	defer srv.Close()
	// generous margins: the verdicts below compare against these wall-clock
	// values, and a loaded machine stalls a process for tens of milliseconds
	const reqTimeout = 400 * time.Millisecond
	const extTimeout = 900 * time.Millisecond
	var pendingActions sync.WaitGroup
	var pubSeen sync.Map // request id -> true
	srv.OnPub = func(p *natsfake.Pub) {
		var b struct {
			ID int    `json:"id"`
			B  string `json:"b"`
		}
		if json.Unmarshal(p.Payload, &b) != nil || p.Reply == "" {
			return
		}
		pubSeen.Store(b.ID, true)
		reply := []byte(fmt.Sprintf(`{"result":{"id":%d,"n":1}}`, b.ID))
		reply2 := []byte(fmt.Sprintf(`{"result":{"id":%d,"n":2}}`, b.ID))
		later := func(d time.Duration, f func()) {
			pendingActions.Add(1)
			time.AfterFunc(d, func() { defer pendingActions.Done(); f() })
		}
		switch b.B {
		case "reply1":
			srv.Publish(p.Reply, reply)
		case "reply2":
			srv.Publish(p.Reply, reply)
			srv.Publish(p.Reply, reply2)
		case "none":
		case "pre-reply":
			srv.Publish(p.Reply, []byte(fmt.Sprintf(`timeout:"%d"`, extTimeout.Milliseconds())))
			later(reqTimeout+150*time.Millisecond, func() { srv.Publish(p.Reply, reply) })
		case "pre-none":
			srv.Publish(p.Reply, []byte(fmt.Sprintf(`timeout:"%d"`, extTimeout.Milliseconds())))
		case "pre-pre-none":
			srv.Publish(p.Reply, []byte(fmt.Sprintf(`timeout:"%d"`, extTimeout.Milliseconds())))
			later(reqTimeout/2, func() { srv.Publish(p.Reply, []byte(fmt.Sprintf(`timeout:"%d"`, extTimeout.Milliseconds()))) })
		case "503":
			srv.PublishNoResponders(p.Reply)
		case "race":
			jitter := time.Duration(int64(b.ID%7)-3) * 300 * time.Microsecond
			later(reqTimeout+jitter, func() { srv.Publish(p.Reply, reply) })
		case "late":
			later(reqTimeout+250*time.Millisecond, func() { srv.Publish(p.Reply, reply) })
		}
	}
	// in a third of the rounds the adapter traces into a slow sink: writing a
	// request's trace line takes a few milliseconds (an injected delay at a
	// point where the adapter does I/O anyway)
	var lg interface {
		Log(string)
		Error(string)
		Debug(string)
		Trace(string)
		IsDebug() bool
		IsTrace() bool
	} = memLogAdapter{&MemLog{}}
	if seed%3 == 0 {
		lg = &slowTraceLogger{memLogAdapter{&MemLog{}}}
		c.Stat("c18_rounds_slow_trace", 1)
	}
	cl := &rnats.Client{RequestTimeout: reqTimeout, URL: srv.URL(), Logger: lg, BufferSize: 8192}
	if err := cl.Connect(); err != nil {
		c.Inconclusive("adapter connect: " + err.Error())
		return
	}
	var closedCalls atomic.Int64
	cl.SetClosedHandler(func(error) { closedCalls.Add(1) })
	// event subscription
	var evMu sync.Mutex
	var evGot []int
	unsub, err := cl.Subscribe("event.x", func(subj string, payload []byte, _ error) {
		var n int
		fmt.Sscanf(string(payload), "%d", &n)
		evMu.Lock()
		evGot = append(evGot, n)
		evMu.Unlock()
	})
	if err != nil {
		fail("subscribeFailed", "Subscribe: %v", err)
		return
	}
	// wait until the server has the subscription
	deadline := time.Now().Add(5 * time.Second)
	for srv.Subs.Load() < 1 && time.Now().Before(deadline) {
		time.Sleep(100 * time.Microsecond)
	}
	// requests from concurrent goroutines
	reqs := make([]*c18Req, nreq)
	var wg sync.WaitGroup
	for i := 0; i < nreq; i++ {
		beh := c18Behaviours[rr.Intn(len(c18Behaviours))]
		subj := fmt.Sprintf("call.svc.m%d", i)
		if beh == "toolong" {
			// around the control line limit: 4096 - len(inbox)(29)
			subj = "call." + strings.Repeat("x", 4096-29-5+rr.Intn(5)-2)
		}
		reqs[i] = &c18Req{ID: i, Behaviour: beh, Subject: subj}
	}
	evDone := make(chan struct{})
	nEvents := 150
	go func() {
		defer close(evDone)
		for i := 0; i < nEvents; i++ {
			srv.Publish(fmt.Sprintf("event.x.e%d", i%5), []byte(fmt.Sprint(i)))
			if i%10 == 0 {
				time.Sleep(200 * time.Microsecond)
			}
		}
	}()
	for _, rq := range reqs {
		wg.Add(1)
		go func(rq *c18Req) {
			defer wg.Done()
			payload, _ := json.Marshal(map[string]interface{}{"id": rq.ID, "b": rq.Behaviour})
			rq.SentAt = time.Now()
			cl.SendRequest(rq.Subject, payload, func(_ string, data []byte, err error) {
				d := c18Done{At: time.Now(), Payload: string(data)}
				if err != nil {
					d.Err = reserr.RESError(err).Code
					if d.Err == "system.internalError" {
						d.Err = err.Error()
					}
				}
				rq.mu.Lock()
				rq.Done = append(rq.Done, d)
				rq.mu.Unlock()
			})
		}(rq)
	}
	wg.Wait()
	<-evDone
	// fence: a request answered by the server after every event was published
	// travels the same TCP stream and the same listener, so once it completes
	// every earlier event has been handed to its callback
	fence := make(chan struct{})
	fp, _ := json.Marshal(map[string]interface{}{"id": 1000000, "b": "reply1"})
	cl.SendRequest("call.svc.fence", fp, func(string, []byte, error) { close(fence) })
	select {
	case <-fence:
	case <-time.After(10 * time.Second):
		c.Inconclusive("C18: fence request not answered")
		return
	}
	dropped := false
	if dropAt >= 0 {
		time.Sleep(time.Duration(dropAt) * time.Millisecond)
		srv.DropAll()
		dropped = true
	}
	// logical completion: nothing pending in the adapter and no scripted action left
	actionsDone := make(chan struct{})
	go func() { pendingActions.Wait(); close(actionsDone) }()
	deadline = time.Now().Add(20 * time.Second)
	for {
		select {
		case <-actionsDone:
		default:
			time.Sleep(time.Millisecond)
			if time.Now().After(deadline) {
				c.Inconclusive("C18: scripted actions did not finish")
				return
			}
			continue
		}
		if dropped || cl.VerifPending() == 0 {
			break
		}
		if time.Now().After(deadline) {
			fail("pendingForever", "%d requests still pending in the adapter long after every timeout", cl.VerifPending())
			break
		}
		time.Sleep(time.Millisecond)
	}
	// let completions that were already being invoked finish recording: the
	// adapter forgets a request before it invokes the callback
	if !dropped {
		waitUntil := time.Now().Add(5 * time.Second)
		for time.Now().Before(waitUntil) {
			missing := false
			for _, rq := range reqs {
				rq.mu.Lock()
				if len(rq.Done) == 0 {
					missing = true
				}
				rq.mu.Unlock()
			}
			if !missing {
				break
			}
			time.Sleep(time.Millisecond)
		}
	}
	time.Sleep(5 * time.Millisecond)
	if dropped {
		deadline = time.Now().Add(10 * time.Second)
		for closedCalls.Load() == 0 && time.Now().Before(deadline) {
			time.Sleep(time.Millisecond)
		}
		if closedCalls.Load() == 0 {
			fail("closedHandlerNotInvoked", "the server dropped the connection but the closed handler was not invoked")
		}
		c.Stat("c18_drops", 1)
	}
	// verdicts
	preTotal, preTimedOut := 0, 0
	for _, rq := range reqs {
		rq.mu.Lock()
		done := append([]c18Done(nil), rq.Done...)
		rq.mu.Unlock()
		c.Stat("c18_requests."+rq.Behaviour, 1)
		if len(done) > 1 {
			fail("doubleCompletion", "request %d (%s) completed %d times: %+v", rq.ID, rq.Behaviour, len(done), done)
			continue
		}
		if len(done) == 0 {
			if !dropped {
				fail("noCompletion", "request %d (%s) never completed although nothing is pending", rq.ID, rq.Behaviour)
			}
			continue
		}
		d := done[0]
		el := d.At.Sub(rq.SentAt)
		_, wire := pubSeen.Load(rq.ID)
		wantReply := fmt.Sprintf(`{"result":{"id":%d,"n":1}}`, rq.ID)
		if dropped {
			continue // outcomes after a drop are not unambiguous
		}
		switch rq.Behaviour {
		case "pre-reply":
			// the pre-response extends the timeout to 900 ms and the reply follows
			// 550 ms after the request; if the pre-response is processed later
			// than the base timeout (loaded machine) the request times out
			// legitimately, so single timeouts are counted, not judged: a round in
			// which most pre-reply requests time out is (below)
			preTotal++
			if d.Err == "system.timeout" && el >= reqTimeout {
				preTimedOut++
				c.Stat("c18_prereply_timed_out", 1)
			} else if d.Err != "" || d.Payload != wantReply {
				fail("wrongCompletion", "request %d (%s) completed with %+v, want the first reply", rq.ID, rq.Behaviour, d)
			}
		case "reply1", "reply2":
			if d.Err == "system.timeout" && el >= reqTimeout {
				failTiming("wrongCompletion", "request %d (%s) completed with %+v, want the first reply", rq.ID, rq.Behaviour, d)
			} else if d.Err != "" || d.Payload != wantReply {
				fail("wrongCompletion", "request %d (%s) completed with %+v, want the first reply", rq.ID, rq.Behaviour, d)
			}
		case "late":
			// the reply is sent 60 ms after the configured timeout; on a loaded
			// machine (or with the timeout path perturbed) it can still reach the
			// adapter before its timer has fired, which is then a regular reply:
			// no wall-clock verdict here, only exactly-once and the values
			if d.Err == "" && d.Payload == wantReply {
				c.Stat("c18_late_reply_won", 1)
			} else if d.Err != "system.timeout" {
				fail("wrongCompletion", "request %d (%s) completed with %+v, want system.timeout", rq.ID, rq.Behaviour, d)
			} else if el < reqTimeout {
				fail("earlyTimeout", "request %d timed out after %v, configured timeout %v", rq.ID, el, reqTimeout)
			}
		case "none":
			if d.Err != "system.timeout" {
				fail("wrongCompletion", "request %d (%s) completed with %+v, want system.timeout", rq.ID, rq.Behaviour, d)
			} else if el < reqTimeout {
				fail("earlyTimeout", "request %d timed out after %v, configured timeout %v", rq.ID, el, reqTimeout)
			}
		case "pre-none", "pre-pre-none":
			if d.Err != "system.timeout" {
				fail("wrongCompletion", "request %d (%s) completed with %+v, want system.timeout", rq.ID, rq.Behaviour, d)
			} else if el < reqTimeout {
				fail("earlyTimeout", "request %d with a timeout pre-response timed out after %v, before even the configured timeout %v", rq.ID, el, reqTimeout)
			} else if el < extTimeout {
				// the base timeout fired: the pre-response was processed late, or ignored
				failTiming("earlyTimeout", "request %d with a timeout pre-response timed out after %v, extended timeout %v", rq.ID, el, extTimeout)
			}
		case "503":
			if d.Err != "system.notFound" {
				fail("wrongCompletion", "request %d (no responders) completed with %+v, want system.notFound", rq.ID, d)
			}
		case "race":
			if !(d.Err == "system.timeout" || (d.Err == "" && d.Payload == wantReply)) {
				fail("wrongCompletion", "request %d (reply racing the timeout) completed with %+v", rq.ID, d)
			}
			if d.Err == "system.timeout" && el < reqTimeout {
				fail("earlyTimeout", "request %d timed out after %v, configured timeout %v", rq.ID, el, reqTimeout)
			}
		case "toolong":
			tooLong := len(rq.Subject)+29 > 4096
			if tooLong {
				if d.Err != "system.subjectTooLong" {
					fail("wrongCompletion", "request %d on a %d byte subject completed with %+v, want system.subjectTooLong", rq.ID, len(rq.Subject), d)
				}
				if wire {
					fail("tooLongOnWire", "request %d on a too long subject was still published", rq.ID)
				}
			} else if d.Err == "system.subjectTooLong" {
				fail("wrongCompletion", "request %d on a %d byte subject (fits the control line) was rejected as too long", rq.ID, len(rq.Subject))
			}
		}
	}
	// events in publish order without gaps
	evMu.Lock()
	got := append([]int(nil), evGot...)
	evMu.Unlock()
	for i, n := range got {
		if n != i {
			fail("eventOrder", "event callback %d received message %d (publish order is 0,1,2,...)", i, n)
			break
		}
	}
	if !dropped && len(got) != nEvents {
		fail("eventsLost", "%d of %d published events reached the callback before Unsubscribe", len(got), nEvents)
	}
	unsub.Unsubscribe()
	if preTotal >= 4 && preTimedOut*2 > preTotal {
		failTiming("preResponseIgnored", "%d of %d requests whose timeout pre-response (900 ms) was followed by a reply after 550 ms completed with system.timeout", preTimedOut, preTotal)
	}
	c.Stat("c18_events_checked", int64(len(got)))
	cl.Close()
	if cl.VerifPending() != 0 && !dropped {
		fail("pendingAfterClose", "adapter still lists pending requests after Close")
	}
}

func c18Run(c *RunCtx) {
	n := c.N(320, 4000)
	r := NewRng(c.Seed ^ 0xc18)
	for i := 0; i < n; i++ {
		seed := r.U64()
		if !c.Mine(i) {
			continue
		}
		rr := NewRng(seed)
		nreq := []int{1, 2, 8, 24, 64}[rr.Intn(5)]
		dropAt := -1
		if rr.Chance(20) {
			dropAt = rr.Intn(500)
		}
		c.WAL("C18 round seed=%d nreq=%d drop=%d", seed, nreq, dropAt)
		var timing []VReport
		c18Round(c, seed, nreq, dropAt, &timing)
		for rerun := 0; len(timing) > 0 && rerun < 2; rerun++ {
			c.Stat("c18_rounds_repeated_for_timing", 1)
			timing = nil
			c18Round(c, seed, nreq, dropAt, &timing)
		}
		for _, v := range timing {
			c.Violation(v)
		}
		c.Eval(int64(nreq))
		c.Distinct(Hash64(fmt.Sprint(seed)))
		c.Sample(map[string]interface{}{"seed": seed, "requests": nreq, "drop_at_ms": dropAt})
		c.Flush(false)
	}
}

func init() {
	RegisterReplayer("c18round", func(w json.RawMessage) (bool, string) {
		var rw struct {
			Seed     uint64 `json:"seed"`
			Requests int    `json:"requests"`
			DropAt   int    `json:"drop_at"`
		}
		if json.Unmarshal(w, &rw) != nil {
			return false, "bad witness"
		}
		c := &RunCtx{Prop: "C18", Tier: "quick", Seed: 1, Shards: 1, dset: map[uint64]bool{}, iset: map[uint64]bool{}}
		c.Rep = &Report{Property: "C18"}
		c18Round(c, rw.Seed, rw.Requests, rw.DropAt, nil)
		if len(c.Rep.Violations) > 0 {
			s := ""
			for _, v := range c.Rep.Violations {
				s += v.Sig + ": " + v.Msg + "\n"
			}
			return true, s
		}
		return false, ""
	})
}

// slowTraceLogger traces, and takes its time to write the line of an outgoing request.
type slowTraceLogger struct{ memLogAdapter }

func (l *slowTraceLogger) IsTrace() bool { return true }
func (l *slowTraceLogger) Trace(s string) {
	if strings.HasPrefix(s, "<==") {
		time.Sleep(3 * time.Millisecond)
	}
}
