package vg

import (
	"bytes"
	"encoding/json"
	"fmt"
)

// lenientUnmarshal decodes JSON like encoding/json but accepts numbers that do
// not fit a float64 (they are valid JSON, e.g. 1e999): such a number becomes
// the string "number:<literal>" so that both sides of a comparison decode it
// the same way.
func lenientUnmarshal(data []byte, v interface{}) error {
	if err := json.Unmarshal(data, v); err == nil {
		return nil
	}
	dec := json.NewDecoder(bytes.NewReader(data))
	dec.UseNumber()
	var x interface{}
	if err := dec.Decode(&x); err != nil {
		return err
	}
	x = normNumbers(x)
	b, err := json.Marshal(x)
	if err != nil {
		return err
	}
	return json.Unmarshal(b, v)
}

func normNumbers(x interface{}) interface{} {
	switch t := x.(type) {
	case json.Number:
		if f, err := t.Float64(); err == nil {
			return f
		}
		return fmt.Sprintf("number:%s", string(t))
	case map[string]interface{}:
		for k, v := range t {
			t[k] = normNumbers(v)
		}
		return t
	case []interface{}:
		for i, v := range t {
			t[i] = normNumbers(v)
		}
		return t
	}
	return x
}
