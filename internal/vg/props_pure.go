package vg

import (
	"encoding/json"
	"fmt"
	"sort"
	"strings"

	"github.com/resgateio/resgate/server"
	"github.com/resgateio/resgate/server/codec"
	"github.com/resgateio/resgate/server/rescache"
	"github.com/resgateio/resgate/server/reserr"
)

// enumStrings calls f for every string over alphabet with length 0..maxLen,
// in a fixed order, numbering them.
func enumStrings(alphabet string, maxLen int, f func(idx int, s string)) int {
	idx := 0
	buf := make([]byte, 0, maxLen)
	var rec func(l int)
	rec = func(l int) {
		f(idx, string(buf))
		idx++
		if l == maxLen {
			return
		}
		for i := 0; i < len(alphabet); i++ {
			buf = append(buf, alphabet[i])
			rec(l + 1)
			buf = buf[:len(buf)-1]
		}
	}
	rec(0)
	return idx
}

func allStrings(alphabet string, maxLen int) []string {
	var out []string
	enumStrings(alphabet, maxLen, func(_ int, s string) { out = append(out, s) })
	return out
}

// safely runs f and converts a panic into an error string.
func safely(f func()) (perr string) {
	defer func() {
		if r := recover(); r != nil {
			perr = fmt.Sprint(r)
		}
	}()
	f()
	return ""
}

type pureWitness struct {
	Kind  string      `json:"kind"`
	Layer string      `json:"layer"`
	Input interface{} `json:"input"`
}

// c12Patterns: layer 1 of C12, the exported pattern matcher against the
// reference matcher.
func c12Patterns(c *RunCtx) {
	maxLen := c.N(5, 7)
	names := allStrings("ab.", maxLen)
	validName := make([]bool, len(names))
	for i, n := range names {
		validName[i] = refNameValid(n)
	}
	var nontrivial int64
	enumStrings("ab.*>", maxLen, func(idx int, p string) {
		if !c.Mine(idx) {
			return
		}
		var pat rescache.ResourcePattern
		if e := safely(func() { pat = rescache.ParseResourcePattern(p) }); e != "" {
			c.Violation(VReport{Prop: "C12", Sig: "patternPanic", Msg: fmt.Sprintf("ParseResourcePattern(%q) panicked: %s", p, e), Witness: pureWitness{"pure", "pattern", p}})
			return
		}
		rv := refPatternValid(p)
		if pat.IsValid() != rv {
			c.Violation(VReport{Prop: "C12", Sig: "patternValidity", Msg: fmt.Sprintf("pattern %q: IsValid=%v, reference says %v", p, pat.IsValid(), rv), Witness: pureWitness{"pure", "pattern", p}})
		}
		wild := strings.ContainsAny(p, "*>")
		for i, n := range names {
			var got bool
			if e := safely(func() { got = pat.Match(n) }); e != "" {
				c.Violation(VReport{Prop: "C12", Sig: "matchPanic", Msg: fmt.Sprintf("pattern %q Match(%q) panicked: %s", p, n, e), Witness: pureWitness{"pure", "match", []string{p, n}}})
				continue
			}
			c.Rep.Evaluations++
			if !validName[i] {
				continue
			}
			want := refPatternMatch(p, n)
			if got != want {
				c.Violation(VReport{Prop: "C12", Sig: "matchMismatch", Msg: fmt.Sprintf("pattern %q Match(%q) = %v, reference (token-wise NATS semantics) says %v", p, n, got, want), Witness: pureWitness{"pure", "match", []string{p, n}}})
			}
			if rv && wild {
				nontrivial++
			}
		}
		if idx%97 == 0 {
			c.Sample(map[string]interface{}{"layer": "pattern", "pattern": p, "valid": rv, "matches_a.b": refPatternMatch(p, "a.b")})
		}
	})
	// random longer inputs with other bytes
	r := NewRng(c.Seed ^ 0xc12)
	atoms := []string{"a", "bb", ".", "*", ">", "?", "é", "\xff", " ", "a*", "*a", ">a", "..", "A", "~", "\x7f", "{cid}"}
	nr := c.N(20000, 400000)
	for i := 0; i < nr; i++ {
		if !c.Mine(i) {
			r.U64()
			continue
		}
		rr := NewRng(r.U64())
		var p, n string
		for k := rr.Intn(7); k >= 0; k-- {
			p += atoms[rr.Intn(len(atoms))]
		}
		for k := rr.Intn(7); k >= 0; k-- {
			n += atoms[rr.Intn(len(atoms))]
		}
		var got, valid bool
		if e := safely(func() { pat := rescache.ParseResourcePattern(p); valid = pat.IsValid(); got = pat.Match(n) }); e != "" {
			c.Violation(VReport{Prop: "C12", Sig: "matchPanic", Msg: fmt.Sprintf("pattern %q Match(%q) panicked: %s", p, n, e), Witness: pureWitness{"pure", "match", []string{p, n}}})
			continue
		}
		c.Rep.Evaluations++
		if valid != refPatternValid(p) {
			c.Violation(VReport{Prop: "C12", Sig: "patternValidity", Msg: fmt.Sprintf("pattern %q: IsValid=%v, reference says %v", p, valid, refPatternValid(p)), Witness: pureWitness{"pure", "pattern", p}})
		}
		if refNameValid(n) && got != refPatternMatch(p, n) {
			c.Violation(VReport{Prop: "C12", Sig: "matchMismatch", Msg: fmt.Sprintf("pattern %q Match(%q) = %v, reference says %v", p, n, got, !got), Witness: pureWitness{"pure", "match", []string{p, n}}})
		}
	}
	c.Rep.DistinctN += nontrivial
	c.Stat("pattern_pairs_nontrivial", nontrivial)
}

func svcVal(v Val) codec.Value {
	var cv codec.Value
	if err := json.Unmarshal([]byte(v.ServiceJSON()), &cv); err != nil {
		panic(err)
	}
	return cv
}

func valKey(v codec.Value) string {
	return fmt.Sprintf("%d|%s|%s", v.Type, v.RID, string(v.RawMessage))
}

// applyCollectionEvents applies derived add/remove events to old like a
// client (and the cache) would, checking every index.
func applyCollectionEvents(old []codec.Value, evs []*rescache.ResourceEvent) ([]codec.Value, string) {
	cur := append([]codec.Value(nil), old...)
	for i, ev := range evs {
		switch ev.Event {
		case "remove":
			var d struct {
				Idx *int `json:"idx"`
			}
			if json.Unmarshal(ev.Payload, &d) != nil || d.Idx == nil {
				return nil, fmt.Sprintf("event %d: bad remove payload %s", i, ev.Payload)
			}
			if *d.Idx < 0 || *d.Idx >= len(cur) {
				return nil, fmt.Sprintf("event %d: remove idx %d out of range (len %d)", i, *d.Idx, len(cur))
			}
			cur = append(cur[:*d.Idx:*d.Idx], cur[*d.Idx+1:]...)
		case "add":
			var d struct {
				Idx   *int        `json:"idx"`
				Value codec.Value `json:"value"`
			}
			if json.Unmarshal(ev.Payload, &d) != nil || d.Idx == nil {
				return nil, fmt.Sprintf("event %d: bad add payload %s", i, ev.Payload)
			}
			if *d.Idx < 0 || *d.Idx > len(cur) {
				return nil, fmt.Sprintf("event %d: add idx %d out of range (len %d)", i, *d.Idx, len(cur))
			}
			n := make([]codec.Value, 0, len(cur)+1)
			n = append(n, cur[:*d.Idx]...)
			n = append(n, d.Value)
			n = append(n, cur[*d.Idx:]...)
			cur = n
		default:
			return nil, fmt.Sprintf("event %d: unexpected event %q", i, ev.Event)
		}
	}
	return cur, ""
}

func sameValues(a, b []codec.Value) bool {
	if len(a) != len(b) {
		return false
	}
	for i := range a {
		if valKey(a[i]) != valKey(b[i]) {
			return false
		}
	}
	return true
}

func checkCollectionDiff(c *RunCtx, old, new []codec.Value, desc func() interface{}) {
	var evs []*rescache.ResourceEvent
	var cached []codec.Value
	if e := safely(func() { evs, cached = rescache.VerifCollectionReset(old, append([]codec.Value(nil), new...)) }); e != "" {
		c.Violation(VReport{Prop: "C12", Sig: "diffPanic", Msg: "collection reset panicked: " + e, Witness: pureWitness{"pure", "lcs", desc()}})
		return
	}
	c.Rep.Evaluations++
	if sameValues(old, new) && len(evs) != 0 {
		c.Violation(VReport{Prop: "C12", Sig: "diffEventsOnEqual", Msg: fmt.Sprintf("unchanged collection produced %d events", len(evs)), Witness: pureWitness{"pure", "lcs", desc()}})
		return
	}
	res, errs := applyCollectionEvents(old, evs)
	if errs != "" {
		c.Violation(VReport{Prop: "C12", Sig: "diffIndexRange", Msg: errs, Witness: pureWitness{"pure", "lcs", desc()}})
		return
	}
	if !sameValues(res, new) {
		c.Violation(VReport{Prop: "C12", Sig: "diffWrongResult", Msg: "applying the derived events to the old collection does not yield the new one", Witness: pureWitness{"pure", "lcs", desc()}})
		return
	}
	if !sameValues(cached, new) {
		c.Violation(VReport{Prop: "C12", Sig: "diffCacheWrong", Msg: "the cached collection after the reset differs from the re-fetched one", Witness: pureWitness{"pure", "lcs", desc()}})
	}
}

// c12Diff: layer 2 of C12, the diff routines reached through the real reset
// pipeline.
func c12Diff(c *RunCtx) {
	maxLen := c.N(5, 6)
	syms := []codec.Value{svcVal(P("a")), svcVal(P("b")), svcVal(P("c"))}
	seqs := allStrings("abc", maxLen)
	toVals := func(s string) []codec.Value {
		out := make([]codec.Value, len(s))
		for i := 0; i < len(s); i++ {
			out[i] = syms[s[i]-'a']
		}
		return out
	}
	var nontrivial int64
	for i, a := range seqs {
		if !c.Mine(i) {
			continue
		}
		av := toVals(a)
		for _, b := range seqs {
			checkCollectionDiff(c, av, toVals(b), func() interface{} { return []string{a, b} })
			if a != b && len(a) > 0 && len(b) > 0 {
				nontrivial++
			}
		}
		if i%200 == 0 {
			c.Sample(map[string]interface{}{"layer": "lcs", "old": a, "new": seqs[(i*7)%len(seqs)]})
		}
	}
	// random longer pairs with duplicates and mixed kinds
	r := NewRng(c.Seed ^ 0x1c5)
	pool := []codec.Value{svcVal(P(1)), svcVal(P("x")), svcVal(P(nil)), svcVal(Ref("t.a")), svcVal(Ref("t.b")), svcVal(Soft("t.a")), svcVal(Data(`{"a":1}`)), svcVal(Data(`[1]`)), svcVal(P(true)), svcVal(P(2))}
	nr := c.N(20000, 300000)
	for i := 0; i < nr; i++ {
		seed := r.U64()
		if !c.Mine(i) {
			continue
		}
		rr := NewRng(seed)
		k := 2 + rr.Intn(len(pool)-1)
		mk := func() []codec.Value {
			out := make([]codec.Value, rr.Intn(41))
			for j := range out {
				out[j] = pool[rr.Intn(k)]
			}
			return out
		}
		a := mk()
		var b []codec.Value
		if rr.Chance(50) {
			// mutate a
			b = append([]codec.Value(nil), a...)
			for m := rr.Intn(6); m >= 0; m-- {
				if len(b) > 0 && rr.Chance(50) {
					j := rr.Intn(len(b))
					b = append(b[:j:j], b[j+1:]...)
				} else {
					j := rr.Intn(len(b) + 1)
					nb := append([]codec.Value(nil), b[:j]...)
					nb = append(nb, pool[rr.Intn(k)])
					b = append(nb, b[j:]...)
				}
			}
		} else {
			b = mk()
		}
		checkCollectionDiff(c, a, b, func() interface{} {
			f := func(v []codec.Value) []string {
				o := make([]string, len(v))
				for i := range v {
					o[i] = string(v[i].RawMessage)
				}
				return o
			}
			return map[string]interface{}{"old": f(a), "new": f(b)}
		})
		nontrivial++
	}
	// models: all pairs of maps over keys a,b,c with 6 value choices each
	choices := []*Val{nil, vp(P(1)), vp(P(2)), vp(Ref("t.x")), vp(Soft("t.x")), vp(Data(`{"d":1}`))}
	nm := len(choices) * len(choices) * len(choices)
	mkModel := func(code int) map[string]codec.Value {
		m := map[string]codec.Value{}
		for _, k := range []string{"a", "b", "c"} {
			ch := choices[code%len(choices)]
			code /= len(choices)
			if ch != nil {
				m[k] = svcVal(*ch)
			}
		}
		return m
	}
	for i := 0; i < nm; i++ {
		if !c.Mine(i) {
			continue
		}
		for j := 0; j < nm; j++ {
			old := mkModel(i)
			nw := mkModel(j)
			want := mkModel(j)
			var evs []*rescache.ResourceEvent
			var cached map[string]codec.Value
			if e := safely(func() { evs, cached = rescache.VerifModelReset(old, nw) }); e != "" {
				c.Violation(VReport{Prop: "C12", Sig: "diffPanic", Msg: "model reset panicked: " + e, Witness: pureWitness{"pure", "model", []int{i, j}}})
				continue
			}
			c.Rep.Evaluations++
			if i == j {
				if len(evs) != 0 {
					c.Violation(VReport{Prop: "C12", Sig: "diffEventsOnEqual", Msg: "unchanged model produced a change event", Witness: pureWitness{"pure", "model", []int{i, j}}})
				}
				continue
			}
			nontrivial++
			if len(evs) != 1 || evs[0].Event != "change" {
				c.Violation(VReport{Prop: "C12", Sig: "modelDiffEvents", Msg: fmt.Sprintf("model reset produced %d events (want exactly one change)", len(evs)), Witness: pureWitness{"pure", "model", []int{i, j}}})
				continue
			}
			// apply evs[0].Changed to old (client view)
			cur := mkModel(i)
			for k, v := range evs[0].Changed {
				if v.Type == codec.ValueTypeDelete {
					if _, ok := cur[k]; !ok {
						c.Violation(VReport{Prop: "C12", Sig: "modelDiffDeleteMissing", Msg: "delete action for a key the old model lacks: " + k, Witness: pureWitness{"pure", "model", []int{i, j}}})
					}
					delete(cur, k)
				} else {
					cur[k] = v
				}
			}
			if !sameModel(cur, want) || !sameModel(cached, want) {
				c.Violation(VReport{Prop: "C12", Sig: "diffWrongResult", Msg: "applying the derived change event to the old model does not yield the new one", Witness: pureWitness{"pure", "model", []int{i, j}}})
			}
		}
	}
	c.Rep.DistinctN += nontrivial
	c.Stat("diff_pairs_nontrivial", nontrivial)
}

func sameModel(a, b map[string]codec.Value) bool {
	if len(a) != len(b) {
		return false
	}
	for k, v := range a {
		w, ok := b[k]
		if !ok || valKey(v) != valKey(w) {
			return false
		}
	}
	return true
}

// refCanCall is the reference matcher for access call lists.
func refCanCall(call, method string) bool {
	if call == "*" {
		return true
	}
	if call == "" {
		return false
	}
	for _, e := range strings.Split(call, ",") {
		if e == method {
			return true
		}
	}
	return false
}

// c05Matcher: enumerated call lists against the exported Access.CanCall.
func c05Matcher(c *RunCtx) {
	maxLen := c.N(6, 8)
	methods := []string{"a", "b", "ab", "ba", "aa", "aab", "abc", "new", "A"}
	var nontrivial int64
	enumStrings("ab,*", maxLen, func(idx int, call string) {
		if !c.Mine(idx) {
			return
		}
		acc := &rescache.Access{AccessResult: &codec.AccessResult{Get: true, Call: call}}
		for _, m := range methods {
			var err error
			if e := safely(func() { err = acc.CanCall(m) }); e != "" {
				c.Violation(VReport{Prop: "C05", Sig: "canCallPanic", Msg: fmt.Sprintf("CanCall(%q) with call=%q panicked: %s", m, call, e), Witness: pureWitness{"pure", "cancall", []string{call, m}}})
				continue
			}
			c.Rep.Evaluations++
			want := refCanCall(call, m)
			if (err == nil) != want {
				c.Violation(VReport{Prop: "C05", Sig: "canCallMismatch", Msg: fmt.Sprintf("call list %q, method %q: granted=%v, reference (\"*\" or exact comma-separated entry) says %v", call, m, err == nil, want), Witness: pureWitness{"pure", "cancall", []string{call, m}}})
			} else if err != nil && !reserr.IsError(err, reserr.CodeAccessDenied) {
				c.Violation(VReport{Prop: "C05", Sig: "canCallWrongError", Msg: fmt.Sprintf("call list %q, method %q: denied with %v instead of system.accessDenied", call, m, err), Witness: pureWitness{"pure", "cancall", []string{call, m}}})
			}
			if strings.Contains(call, m) && call != m {
				nontrivial++
			}
		}
		if idx%997 == 0 {
			c.Sample(map[string]interface{}{"layer": "cancall", "call": call, "method": "ab", "granted": refCanCall(call, "ab")})
		}
	})
	// an access error always wins
	acc := &rescache.Access{Error: reserr.ErrTimeout}
	if err := acc.CanCall("a"); err == nil || !reserr.IsError(err, reserr.CodeTimeout) {
		c.Violation(VReport{Prop: "C05", Sig: "canCallErrorIgnored", Msg: "CanCall granted or changed the error although the access request failed"})
	}
	c.Rep.DistinctN += nontrivial
	c.Stat("cancall_pairs_nontrivial", nontrivial)
}

// refOriginMatch: an origin is allowed iff it equals a listed origin byte for
// byte ignoring ASCII case.
func refOriginMatch(list []string, o string) bool {
	lower := func(b byte) byte {
		if 'A' <= b && b <= 'Z' {
			return b + 'a' - 'A'
		}
		return b
	}
	for _, s := range list {
		if len(s) != len(o) {
			continue
		}
		eq := true
		for i := 0; i < len(s); i++ {
			if lower(s[i]) != lower(o[i]) {
				eq = false
				break
			}
		}
		if eq {
			return true
		}
	}
	return false
}

var originAtoms = []string{"http://", "https://", "HTTP://", "a", "A", "b", ".com", ".COM", ":80", ":8080", ".", "é", "É", "\xff", "\xfe", "�", "K", "k", "K", "\xc3", "x", "/", "-"}

func buildOrigin(r *Rng, n int) string {
	var sb strings.Builder
	for i := 0; i < n; i++ {
		sb.WriteString(originAtoms[r.Intn(len(originAtoms))])
	}
	return sb.String()
}

// c17Origins: the origin matcher against the byte-wise reference.
func c17Origins(c *RunCtx) {
	r := NewRng(c.Seed ^ 0xc17)
	n := c.N(300000, 6000000)
	var nontrivial int64
	for i := 0; i < n; i++ {
		seed := r.U64()
		if !c.Mine(i) {
			continue
		}
		rr := NewRng(seed)
		allowed := toLowerASCIIRef(buildOrigin(rr, 1+rr.Intn(5)))
		var o string
		switch rr.Intn(4) {
		case 0:
			o = allowed
		case 1:
			// case variant / single byte mutation
			b := []byte(allowed)
			if len(b) > 0 {
				j := rr.Intn(len(b))
				switch rr.Intn(4) {
				case 0:
					if 'a' <= b[j] && b[j] <= 'z' {
						b[j] -= 32
					}
				case 1:
					b[j] ^= 1
				case 2:
					b[j] = 0xfe
				default:
					b = append(b[:j:j], b[j+1:]...)
				}
			}
			o = string(b)
		case 2:
			o = allowed + originAtoms[rr.Intn(len(originAtoms))]
		default:
			o = buildOrigin(rr, 1+rr.Intn(5))
		}
		list := []string{allowed}
		if rr.Chance(30) {
			list = append(list, toLowerASCIIRef(buildOrigin(rr, 1+rr.Intn(4))))
			sort.Strings(list)
		}
		if rr.Chance(35) {
			// several listed origins of the same length that share parts, and an
			// Origin spliced from the head of one and the tail of another
			k := 2 + rr.Intn(3)
			list = []string{allowed}
			for len(list) < k && len(allowed) > 0 {
				b := []byte(allowed)
				for m := 1 + rr.Intn(3); m > 0; m-- {
					j := rr.Intn(len(b))
					b[j] = "abcxyz0189.:-"[rr.Intn(13)]
				}
				list = append(list, string(b))
			}
			sort.Strings(list)
			switch rr.Intn(3) {
			case 0:
				o = list[rr.Intn(len(list))]
			default:
				x, y := list[rr.Intn(len(list))], list[rr.Intn(len(list))]
				if len(x) > 0 && len(x) == len(y) {
					cut := rr.Intn(len(x) + 1)
					o = x[:cut] + y[cut:]
				}
			}
			if rr.Chance(20) {
				o = strings.ToUpper(o)
			}
		}
		var got bool
		if e := safely(func() { got = server.VerifMatchesOrigins(list, o) }); e != "" {
			c.Violation(VReport{Prop: "C17", Sig: "originPanic", Msg: "matchesOrigins panicked: " + e, Witness: pureWitness{"pure", "origin", []interface{}{list, o}}})
			continue
		}
		c.Rep.Evaluations++
		want := refOriginMatch(list, o)
		if got != want {
			sig := "originMismatch"
			c.Violation(VReport{Prop: "C17", Sig: sig, Msg: fmt.Sprintf("allow-list %q, Origin %q: allowed=%v, reference (equal ignoring ASCII case) says %v", list, o, got, want), Witness: pureWitness{"pure", "origin", []interface{}{list, []byte(o)}}})
		}
		if o != allowed {
			nontrivial++
			c.Distinct(Hash64(strings.Join(list, ";"), o))
		}
		if i%50021 == 0 {
			c.Sample(map[string]interface{}{"layer": "origin", "allow": list, "origin": o, "allowed": want})
		}
	}
	c.Stat("origin_pairs_nontrivial", nontrivial)
}

func toLowerASCIIRef(s string) string {
	b := []byte(s)
	for i, c := range b {
		if 'A' <= c && c <= 'Z' {
			b[i] = c + 32
		}
	}
	return string(b)
}

// c17StatusTable: every error code maps to its fixed status.
func c17StatusTable(c *RunCtx) {
	table := map[string]int{
		"system.notFound": 404, "system.methodNotFound": 404, "system.timeout": 404,
		"system.accessDenied": 401, "system.forbidden": 403, "system.methodNotAllowed": 405,
		"system.subjectTooLong": 414, "system.internalError": 500, "system.serviceUnavailable": 503,
	}
	codes := []string{"system.invalidParams", "system.invalidQuery", "system.noSubscription", "system.invalidRequest", "system.unsupportedProtocol", "system.deleted", "system.badRequest", "system.notImplemented", "", "custom.error", "system.notfound", "System.notFound", "system.notFound ", "system.timeout.x"}
	for k := range table {
		codes = append(codes, k)
	}
	r := NewRng(c.Seed ^ 0x57a7)
	for i := 0; i < 2000; i++ {
		codes = append(codes, fmt.Sprintf("svc%d.err%d", r.Intn(50), r.Intn(1000)))
	}
	if c.Shard != 0 {
		return
	}
	for _, code := range codes {
		want, ok := table[code]
		if !ok {
			want = 400
		}
		got := server.VerifErrorStatus(&reserr.Error{Code: code, Message: "m"})
		c.Rep.Evaluations++
		c.Distinct(Hash64("status", code))
		if got != want {
			c.Violation(VReport{Prop: "C17", Sig: "statusTable", Msg: fmt.Sprintf("error code %q maps to HTTP %d, fixed table says %d", code, got, want), Witness: pureWitness{"pure", "status", code}})
		}
	}
	// a non-RES error is an internal error
	if got := server.VerifErrorStatus(fmt.Errorf("plain")); got != 500 {
		c.Violation(VReport{Prop: "C17", Sig: "statusTable", Msg: fmt.Sprintf("plain Go error maps to %d, want 500", got)})
	}
}
