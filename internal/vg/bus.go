package vg

import (
	"encoding/json"
	"errors"
	"fmt"
	"strings"
	"sync"
	"sync/atomic"

	"github.com/resgateio/resgate/server/mq"
)

// Clock is the single logical clock every boundary event is stamped with.
type Clock struct{ n atomic.Int64 }

// Tick returns the next clock value.
func (c *Clock) Tick() int64 { return c.n.Add(1) }

// Now returns the current clock value without advancing it.
func (c *Clock) Now() int64 { return c.n.Load() }

// NATS limits mirrored from nats.go / the real adapter.
const (
	maxControlLine = 4096
	inboxLen       = 29 // len("_INBOX.") + 22
)

// BusReq is a request the gateway sent at the messaging boundary.
type BusReq struct {
	ID      int
	Subject string
	Payload []byte
	T       int64 // clock at SendRequest
	Done    bool  // a completion has been handed in (or dropped)
	DoneT   int64 // clock after the completion callback returned
	AnsT    int64 // clock when the answer was chosen
	Outcome string
	Reply   []byte
	cb      mq.Response

	// decoded
	Kind   string // access, get, call, auth, or first subject token
	Name   string // resource name
	Method string // for call/auth
	CID    string
	Token  json.RawMessage
	HasTok bool
	Query  string
	IsHTTP bool
	Params json.RawMessage
	// Mark is free for monitors/drivers (e.g. "reset", "query").
	Mark string
}

// BusEv is one entry of the boundary log.
type BusEv struct {
	T       int64
	T2      int64  // clock after the callback returned (event/reply)
	Kind    string // sub unsub req reply timeout event closed
	Subject string
	ReqID   int
	Payload []byte
}

type busSub struct {
	ns     string
	cb     mq.Response
	active bool
	b      *Bus
}

func (s *busSub) Unsubscribe() error { return s.b.unsubscribe(s) }

// Bus is a scriptable mq.Client that records everything crossing it.
type Bus struct {
	Clock *Clock

	mu         sync.Mutex
	connected  bool
	closed     bool
	closedH    func(error)
	subs       map[string]*busSub
	reqs       []*BusReq
	log        []BusEv
	viol       []string
	deadUnsubs int
	inflight   atomic.Int64 // goroutines started by the bus not yet finished
	counter    atomic.Int64 // bumps on every boundary event (quiescence)

	deliverMu sync.Mutex // serialises deliveries like the single NATS listener

	// CloseGate, if not nil, makes Close block until the channel is closed.
	CloseGate chan struct{}
	closing   atomic.Bool

	// OnRequest, if set, is called (without locks) for every new request.
	OnRequest func(r *BusReq)
	// OnRequestGate is the gate's own observer of every new request.
	OnRequestGate func(r *BusReq)
	// FailSubscribe, if set, may return an error for a Subscribe call.
	FailSubscribe func(ns string) error
}

// NewBus returns a new Bus.
func NewBus(clock *Clock) *Bus {
	return &Bus{Clock: clock, subs: map[string]*busSub{}}
}

// Connect implements mq.Client.
func (b *Bus) Connect() error {
	b.mu.Lock()
	defer b.mu.Unlock()
	b.connected = true
	b.closed = false
	b.closing.Store(false)
	b.subs = map[string]*busSub{}
	return nil
}

// IsClosed implements mq.Client.
func (b *Bus) IsClosed() bool {
	b.mu.Lock()
	defer b.mu.Unlock()
	return !b.connected || b.closed
}

// Close implements mq.Client. Like the real adapter, no completion is invoked
// after Close has returned.
func (b *Bus) Close() {
	// CloseGate, if set, holds Close (a slow shutdown of the messaging client)
	b.mu.Lock()
	gate := b.CloseGate
	b.closing.Store(true)
	b.mu.Unlock()
	if gate != nil {
		<-gate
	}
	// Wait for a delivery in progress (the real Close waits for the listener).
	b.deliverMu.Lock()
	defer b.deliverMu.Unlock()
	b.mu.Lock()
	defer b.mu.Unlock()
	if !b.connected {
		return
	}
	b.connected = false
	b.closed = true
	for _, r := range b.reqs {
		if !r.Done {
			r.Done = true
			r.Outcome = "dropped"
			r.DoneT = b.Clock.Tick()
		}
	}
	for _, s := range b.subs {
		s.active = false
	}
	b.subs = map[string]*busSub{}
	b.log = append(b.log, BusEv{T: b.Clock.Tick(), Kind: "closed"})
	b.counter.Add(1)
}

// SetClosedHandler implements mq.Client.
func (b *Bus) SetClosedHandler(cb func(error)) {
	b.mu.Lock()
	b.closedH = cb
	b.mu.Unlock()
}

// LoseConnection emulates loss of the server connection: later requests are
// refused and the closed handler is invoked from a foreign goroutine.
func (b *Bus) LoseConnection(err error) (done chan struct{}) {
	b.mu.Lock()
	h := b.closedH
	b.mu.Unlock()
	done = make(chan struct{})
	b.inflight.Add(1)
	go func() {
		defer close(done)
		defer b.inflight.Add(-1)
		if h != nil {
			h(err)
		}
	}()
	return done
}

// ValidSubject reports whether s consists of non-empty dot separated tokens of
// printable non-space ASCII without wildcards.
func ValidSubject(s string) bool {
	if s == "" {
		return false
	}
	start := true
	for i := 0; i < len(s); i++ {
		c := s[i]
		if c == '.' {
			if start {
				return false
			}
			start = true
			continue
		}
		if c < 33 || c > 126 || c == '*' || c == '>' || c == '?' {
			return false
		}
		start = false
	}
	return !start
}

// Subscribe implements mq.Client.
func (b *Bus) Subscribe(ns string, cb mq.Response) (mq.Unsubscriber, error) {
	if len(ns) > maxControlLine-2 {
		return nil, mq.ErrSubjectTooLong
	}
	if b.FailSubscribe != nil {
		if err := b.FailSubscribe(ns); err != nil {
			return nil, err
		}
	}
	b.mu.Lock()
	defer b.mu.Unlock()
	if !b.connected {
		return nil, errors.New("simbus: connection closed")
	}
	if !ValidSubject(ns) {
		b.viol = append(b.viol, fmt.Sprintf("C14 invalid subscribe subject %q", ns))
	}
	if old, ok := b.subs[ns]; ok && old.active {
		b.viol = append(b.viol, fmt.Sprintf("C09 duplicate subscribe on live namespace %q", ns))
	}
	s := &busSub{ns: ns, cb: cb, active: true, b: b}
	b.subs[ns] = s
	b.log = append(b.log, BusEv{T: b.Clock.Tick(), Kind: "sub", Subject: ns})
	b.counter.Add(1)
	return s, nil
}

func (b *Bus) unsubscribe(s *busSub) error {
	b.mu.Lock()
	defer b.mu.Unlock()
	if !s.active {
		// Like nats.go: unsubscribing an already removed subscription fails.
		b.deadUnsubs++
		return errors.New("nats: invalid subscription")
	}
	s.active = false
	if b.subs[s.ns] == s {
		delete(b.subs, s.ns)
	}
	b.log = append(b.log, BusEv{T: b.Clock.Tick(), Kind: "unsub", Subject: s.ns})
	b.counter.Add(1)
	return nil
}

type reqPayload struct {
	CID    string          `json:"cid"`
	Token  json.RawMessage `json:"token"`
	Query  string          `json:"query"`
	IsHTTP bool            `json:"isHttp"`
	Params json.RawMessage `json:"params"`
}

func decodeReq(r *BusReq) {
	subj := r.Subject
	i := strings.IndexByte(subj, '.')
	if i < 0 {
		r.Kind = subj
		return
	}
	r.Kind = subj[:i]
	rest := subj[i+1:]
	switch r.Kind {
	case "call", "auth":
		j := strings.LastIndexByte(rest, '.')
		if j >= 0 {
			r.Name = rest[:j]
			r.Method = rest[j+1:]
		} else {
			r.Name = rest
		}
	default:
		r.Name = rest
	}
	var p reqPayload
	if json.Unmarshal(r.Payload, &p) == nil {
		r.CID = p.CID
		r.Token = p.Token
		r.HasTok = len(p.Token) > 0
		r.Query = p.Query
		r.IsHTTP = p.IsHTTP
		r.Params = p.Params
	}
}

// SendRequest implements mq.Client.
func (b *Bus) SendRequest(subj string, payload []byte, cb mq.Response) {
	r := &BusReq{Subject: subj, Payload: append([]byte(nil), payload...), cb: cb}
	decodeReq(r)
	b.mu.Lock()
	r.ID = len(b.reqs)
	r.T = b.Clock.Tick()
	b.reqs = append(b.reqs, r)
	b.log = append(b.log, BusEv{T: r.T, Kind: "req", Subject: subj, ReqID: r.ID, Payload: r.Payload})
	if !ValidSubject(subj) {
		b.viol = append(b.viol, fmt.Sprintf("C14 invalid request subject %q", subj))
	}
	tooLong := len(subj)+inboxLen > maxControlLine
	closed := !b.connected
	if tooLong || closed {
		r.Done = true
		r.AnsT = r.T
		if tooLong {
			r.Outcome = "tooLong"
		} else {
			r.Outcome = "connClosed"
		}
	}
	b.counter.Add(1)
	b.mu.Unlock()

	if tooLong || closed {
		b.inflight.Add(1)
		go func() {
			defer b.inflight.Add(-1)
			if tooLong {
				cb("", nil, mq.ErrSubjectTooLong)
			} else {
				cb("", nil, errors.New("nats: connection closed"))
			}
			b.mu.Lock()
			r.DoneT = b.Clock.Tick()
			b.counter.Add(1)
			b.mu.Unlock()
		}()
		return
	}
	if b.OnRequestGate != nil {
		b.OnRequestGate(r)
	}
	if b.OnRequest != nil {
		b.OnRequest(r)
	}
}

// Reqs returns a snapshot of all requests seen so far.
func (b *Bus) Reqs() []*BusReq {
	b.mu.Lock()
	defer b.mu.Unlock()
	return append([]*BusReq(nil), b.reqs...)
}

// NumReqs returns the number of requests seen so far.
func (b *Bus) NumReqs() int {
	b.mu.Lock()
	defer b.mu.Unlock()
	return len(b.reqs)
}

// Outstanding returns the requests that have not been answered yet, oldest first.
func (b *Bus) Outstanding() []*BusReq {
	b.mu.Lock()
	defer b.mu.Unlock()
	var out []*BusReq
	for _, r := range b.reqs {
		if !r.Done {
			out = append(out, r)
		}
	}
	return out
}

// Log returns a snapshot of the boundary log.
func (b *Bus) Log() []BusEv {
	b.mu.Lock()
	defer b.mu.Unlock()
	return append([]BusEv(nil), b.log...)
}

// Violations returns the boundary assertion failures recorded so far.
func (b *Bus) Violations() []string {
	b.mu.Lock()
	defer b.mu.Unlock()
	return append([]string(nil), b.viol...)
}

// ActiveSubs returns the namespaces currently subscribed.
func (b *Bus) ActiveSubs() []string {
	b.mu.Lock()
	defer b.mu.Unlock()
	var out []string
	for ns, s := range b.subs {
		if s.active {
			out = append(out, ns)
		}
	}
	return out
}

// HasSub reports whether the namespace is currently subscribed.
func (b *Bus) HasSub(ns string) bool {
	b.mu.Lock()
	defer b.mu.Unlock()
	s, ok := b.subs[ns]
	return ok && s.active
}

// Counter returns a number that changes with every boundary event.
func (b *Bus) Counter() int64 { return b.counter.Load() }

// Inflight returns the number of bus goroutines still running.
func (b *Bus) Inflight() int64 { return b.inflight.Load() }

func (b *Bus) take(r *BusReq, outcome string, reply []byte) bool {
	b.mu.Lock()
	defer b.mu.Unlock()
	if r.Done {
		return false
	}
	r.Done = true
	r.Outcome = outcome
	r.Reply = reply
	r.AnsT = b.Clock.Tick()
	return true
}

func (b *Bus) finish(r *BusReq, kind string) {
	b.mu.Lock()
	r.DoneT = b.Clock.Tick()
	b.log = append(b.log, BusEv{T: r.AnsT, T2: r.DoneT, Kind: kind, Subject: r.Subject, ReqID: r.ID, Payload: r.Reply})
	b.counter.Add(1)
	b.mu.Unlock()
}

// Reply answers a request with a raw payload, delivered like a NATS message
// (serialised with events). compute, if not nil, is evaluated under the
// delivery lock to produce the payload at its position in the event stream.
func (b *Bus) Reply(r *BusReq, payload []byte, compute func() []byte) bool {
	b.deliverMu.Lock()
	defer b.deliverMu.Unlock()
	if compute != nil {
		payload = compute()
	}
	if !b.take(r, "reply", payload) {
		return false
	}
	r.cb(r.Subject, payload, nil)
	b.finish(r, "reply")
	return true
}

// Timeout completes a request with system.timeout, from the caller's
// goroutine and not serialised with deliveries (the adapter's timer queue).
func (b *Bus) Timeout(r *BusReq) bool {
	if !b.take(r, "timeout", nil) {
		return false
	}
	r.cb("", nil, mq.ErrRequestTimeout)
	b.finish(r, "timeout")
	return true
}

// NoResponders completes a request with system.notFound like a 503 reply.
func (b *Bus) NoResponders(r *BusReq) bool {
	b.deliverMu.Lock()
	defer b.deliverMu.Unlock()
	if !b.take(r, "noResponders", nil) {
		return false
	}
	r.cb("", nil, mq.ErrNoResponders)
	b.finish(r, "reply")
	return true
}

// Event publishes an event on a subject; it is delivered synchronously to the
// matching subscription (if any) and reports whether one matched. pre, if not
// nil, runs under the delivery lock first (world mutation + payload); if it
// returns false nothing is published.
func (b *Bus) Event(subject string, payload []byte, pre func() ([]byte, bool)) bool {
	b.deliverMu.Lock()
	defer b.deliverMu.Unlock()
	if pre != nil {
		var ok bool
		payload, ok = pre()
		if !ok {
			return false
		}
	}
	i := strings.LastIndexByte(subject, '.')
	var s *busSub
	b.mu.Lock()
	if i > 0 {
		if c, ok := b.subs[subject[:i]]; ok && c.active {
			s = c
		}
	}
	t := b.Clock.Tick()
	b.mu.Unlock()
	if s != nil {
		s.cb(subject, payload, nil)
	}
	b.mu.Lock()
	t2 := b.Clock.Tick()
	kind := "event"
	if s == nil {
		kind = "event-nosub"
	}
	b.log = append(b.log, BusEv{T: t, T2: t2, Kind: kind, Subject: subject, Payload: append([]byte(nil), payload...)})
	b.counter.Add(1)
	b.mu.Unlock()
	return s != nil
}

// WithDelivery runs f under the delivery lock (to mutate the world atomically
// with respect to deliveries).
func (b *Bus) WithDelivery(f func()) {
	b.deliverMu.Lock()
	defer b.deliverMu.Unlock()
	f()
}

// Closing reports whether Close has been entered.
func (b *Bus) Closing() bool { return b.closing.Load() }
