package vg

import (
	"bytes"
	"encoding/json"
	"fmt"
	"net/http"
	"net/http/httptest"
	"os"
	"sort"
	"strings"
	"time"

	"github.com/resgateio/resgate/server"
	"github.com/resgateio/resgate/server/rescache"
	"github.com/resgateio/resgate/server/verifhook"
)

// HistCfg configures one generated history against a fresh gateway.
type HistCfg struct {
	Seed     uint64         `json:"seed"`
	Conns    int            `json:"conns"`
	Versions []string       `json:"versions"` // per connection; cycled
	NRes     int            `json:"nres"`
	PColl    int            `json:"pcoll"` // percent collections
	PErr     int            `json:"perr"`  // percent error resources
	PRef     int            `json:"pref"`  // percent of values that are references
	Steps    int            `json:"steps"`
	Mode     string         `json:"mode"` // seq | burst
	Burst    int            `json:"burst"`
	W        map[string]int `json:"w"` // operation weights
	// Outcome weights for get answers: ok, err, timeout, notfound
	GetOutcome [4]int `json:"get_outcome"`
	// Outcome weights for access answers: grant, get:false, RES error, timeout
	AccessOutcome [4]int         `json:"access_outcome"`
	AvoidF        bool           `json:"avoid_f"`      // no unsubscribe while a request on the rid may be pending
	AvoidUnsend   bool           `json:"avoid_unsend"` // no unsubscribe / ref-removing event while requests are outstanding
	Pct           int            `json:"pct"`
	SitePct       map[string]int `json:"site_pct,omitempty"`
	UnsubDelayMs  int            `json:"unsub_delay_ms"`
	RefThrottle   int            `json:"ref_throttle"`
	ResetThrottle int            `json:"reset_throttle"`
	AnswerOrder   string         `json:"answer_order"` // random | oldest | newest
	CIDTags       bool           `json:"cid_tags"`     // use {cid} tagged resource ids
	Metrics       bool           `json:"metrics"`
	// HTTPHeaderAuth, when set, is the header authentication method (resource.method) of HTTP requests.
	HTTPHeaderAuth string `json:"http_header_auth,omitempty"`
	Trace          bool   `json:"-"`
}

// HistResult is what one history produced.
type HistResult struct {
	Cfg          HistCfg           `json:"cfg"`
	Steps        []string          `json:"steps"`
	Viol         []Viol            `json:"viol"`
	Inconclusive string            `json:"inconclusive,omitempty"`
	Sig          uint64            `json:"sig"`
	Counters     map[string]uint64 `json:"counters"`
	Stats        map[string]int64  `json:"stats"`
	Notes        []verifhook.Note  `json:"-"`
	Frames       map[int][]string  `json:"frames,omitempty"`
	BusLog       []string          `json:"buslog,omitempty"`
	ErrLog       []string          `json:"errlog,omitempty"`
}

// histRun is the state of a running history.
type histRun struct {
	cfg   HistCfg
	rng   *Rng
	g     *Gate
	w     *World
	names []string
	rcs   map[*WSClient]*RefClient
	res   *HistResult
	// maybePending[conn][rid]: a request touching rid may be unanswered
	maybePending map[int]map[string]bool
	reqTarget    map[int]map[uint64]string // call/new requests → target rid
	driftTag     map[string]string         // "cid rid" → known-finding tag of a counter seen off before
	counterSeen  map[string]bool           // structural violations already reported (they persist)
	strayCause   map[string]string         // "cid rid" of a stray event → the tags it got (its cause)
	pHeld        map[string]bool           // "cid rid" attributed to finding P (gateway takes it as still held)
	// ppoints: clock values at which the gateway was idle with at most service
	// requests outstanding (everything published before has been processed)
	ppoints       []int64
	stepNo        int
	callSeq       int
	closedAt      map[int]int64 // clock when a client was closed
	tokenSeq      int
	resets        int
	fatal         bool
	seenViol      map[string]bool
	qpoints       []int64
	finalClosed   map[int]bool
	tokens        map[int][]tokenSet
	tokenResets   []tokenReset
	tokenResetSeq int
}

func (h *histRun) logf(format string, a ...interface{}) {
	h.res.Steps = append(h.res.Steps, fmt.Sprintf("%d: ", h.stepNo)+fmt.Sprintf(format, a...))
}

func (h *histRun) stat(k string, d int64) { h.res.Stats[k] += d }

func (h *histRun) viol(v Viol) {
	k := fmt.Sprintf("%s|%s|%d|%s", v.Prop, v.Sig, v.Conn, v.RID)
	if h.seenViol == nil {
		h.seenViol = map[string]bool{}
	}
	if h.seenViol[k] {
		return
	}
	h.seenViol[k] = true
	h.res.Viol = append(h.res.Viol, v)
}

// DefaultWeights are the operation weights of the general history workload.
func DefaultWeights() map[string]int {
	return map[string]int{
		"sub": 20, "unsub": 12, "get": 5, "call": 4, "callres": 4, "new": 2, "auth": 1,
		"change": 14, "add": 8, "remove": 6, "custom": 8, "delete": 1, "reaccess": 2,
		"answer": 10, "quiesce": 3, "reset": 0, "disconnect": 0, "token": 0, "recreate": 1,
	}
}

func (h *histRun) randVal(depth int) Val {
	r := h.rng
	k := r.Intn(100)
	switch {
	case k < h.cfg.PRef:
		return Ref(h.names[r.Intn(len(h.names))])
	case k < h.cfg.PRef+8:
		return Soft(h.names[r.Intn(len(h.names))])
	case k < h.cfg.PRef+16:
		switch r.Intn(4) {
		case 0:
			return Data(`{"a":[1,2,{"b":null}]}`)
		case 1:
			return Data(fmt.Sprintf(`[%d,"x"]`, r.Intn(5)))
		case 2:
			return Data(fmt.Sprintf(`%d`, r.Intn(100))) // primitive inner
		default:
			return Data(`{"rid":"not.a.ref"}`)
		}
	}
	switch r.Intn(6) {
	case 0:
		return P(nil)
	case 1:
		return P(r.Intn(2) == 0)
	case 2:
		return P(fmt.Sprintf("s%d", r.Intn(1000)))
	case 3:
		return P("quote\"back\\slash é")
	case 4:
		return P(float64(r.Intn(1000)) / 4)
	}
	return P(r.Intn(100000))
}

var modelKeys = []string{"a", "b", "c", "d", "k\"q", "é", "_s"}

func (h *histRun) buildUniverse() {
	r := h.rng
	n := h.cfg.NRes
	for i := 0; i < n; i++ {
		name := fmt.Sprintf("t.r%d", i)
		if h.cfg.CIDTags && i%3 == 2 {
			name = fmt.Sprintf("t.{cid}.r%d", i)
		}
		h.names = append(h.names, name)
	}
	for _, name := range h.names {
		k := r.Intn(100)
		switch {
		case k < h.cfg.PErr:
			h.w.AddErr(name, "t.custom", "Custom error")
		case k < h.cfg.PErr+h.cfg.PColl:
			c := make([]Val, r.Intn(4))
			for i := range c {
				c[i] = h.randVal(0)
			}
			h.w.AddColl(name, c)
		default:
			m := map[string]Val{}
			nk := r.Intn(4)
			for i := 0; i < nk; i++ {
				m[modelKeys[r.Intn(len(modelKeys)-1)]] = h.randVal(0)
			}
			m["_s"] = P(0)
			h.w.AddModel(name, m)
		}
	}
}

// worldName maps a client rid to the world's resource name for a connection.
// {cid}-tagged resources are per connection in the world: the world stores
// them under the tagged name and the gateway expands the tag towards services;
// the world strips the expansion again.
func (h *histRun) worldName(name string, cid string) string {
	if cid != "" && strings.Contains(name, cid) {
		return strings.Replace(name, cid, "{cid}", -1)
	}
	return name
}

func ridName(rid string) (name, query string) {
	i := strings.IndexByte(rid, '?')
	if i < 0 {
		return rid, ""
	}
	return rid[:i], rid[i+1:]
}

// answer completes one outstanding service request according to the world.
func (h *histRun) answer(r *BusReq) {
	name := r.Name
	if r.CID != "" {
		name = h.worldName(name, r.CID)
	} else {
		// get requests carry no cid; undo the expansion by matching known cids
		for _, c := range h.g.clientsSnapshot() {
			if c.CID != "" && strings.Contains(name, c.CID) {
				name = strings.Replace(name, c.CID, "{cid}", -1)
				break
			}
		}
	}
	switch r.Kind {
	case "access":
		switch h.rng.Weighted(h.cfg.AccessOutcome[:]) {
		case 1:
			h.logf("answer access.%s deny", r.Name)
			h.g.Bus.Reply(r, []byte(`{"result":{"get":false,"call":"*"}}`), nil)
		case 2:
			h.logf("answer access.%s error", r.Name)
			h.g.Bus.Reply(r, []byte(`{"error":{"code":"t.accessFailed","message":"Access failed"}}`), nil)
		case 3:
			h.logf("answer access.%s timeout", r.Name)
			h.g.Bus.Timeout(r)
		default:
			h.logf("answer access.%s grant", r.Name)
			h.g.Bus.Reply(r, []byte(`{"result":{"get":true,"call":"*"}}`), nil)
		}
	case "get":
		switch h.rng.Weighted(h.cfg.GetOutcome[:]) {
		case 0:
			h.logf("answer get.%s ok", r.Name)
			if wr := h.w.Get(name); wr != nil && wr.Q != nil {
				var gp struct {
					Query string `json:"query"`
				}
				json.Unmarshal(r.Payload, &gp)
				h.g.Bus.Reply(r, nil, func() []byte { return h.w.QueryGetResponse(name, gp.Query) })
				break
			}
			h.g.Bus.Reply(r, nil, func() []byte { return h.w.GetResponse(name) })
		case 1:
			h.logf("answer get.%s error", r.Name)
			h.g.Bus.Reply(r, []byte(`{"error":{"code":"t.failed","message":"Failed"}}`), nil)
		case 2:
			h.logf("answer get.%s timeout", r.Name)
			h.g.Bus.Timeout(r)
		default:
			h.logf("answer get.%s noResponders", r.Name)
			h.g.Bus.NoResponders(r)
		}
	case "call", "auth":
		var p struct {
			T string `json:"t"`
		}
		json.Unmarshal(r.Params, &p)
		if r.Method == "new" || r.Method == "goto" {
			t := p.T
			if t == "" {
				t = h.names[0]
			}
			tb, _ := json.Marshal(t)
			h.logf("answer %s.%s.%s resource %s", r.Kind, r.Name, r.Method, t)
			h.g.Bus.Reply(r, []byte(`{"resource":{"rid":`+string(tb)+`}}`), nil)
		} else if r.Method == "fail" {
			h.logf("answer %s.%s.%s error", r.Kind, r.Name, r.Method)
			h.g.Bus.Reply(r, []byte(`{"error":{"code":"t.callFailed","message":"Call failed"}}`), nil)
		} else {
			h.callSeq++
			h.logf("answer %s.%s.%s result", r.Kind, r.Name, r.Method)
			h.g.Bus.Reply(r, []byte(fmt.Sprintf(`{"result":{"n":%d}}`, h.callSeq)), nil)
		}
	default:
		if strings.HasPrefix(r.Subject, "_QEVENT.") {
			h.logf("answer %s events", r.Subject)
			subj, payload := r.Subject, r.Payload
			h.g.Bus.Reply(r, nil, func() []byte { return h.w.QueryRequestAnswer(subj, payload, "events") })
			break
		}
		h.logf("answer %s timeout (unknown kind)", r.Subject)
		h.g.Bus.Timeout(r)
	}
	h.stat("answers", 1)
}

func (h *histRun) pickOutstanding() *BusReq {
	out := h.g.Bus.Outstanding()
	if len(out) == 0 {
		return nil
	}
	switch h.cfg.AnswerOrder {
	case "oldest":
		return out[0]
	case "newest":
		return out[len(out)-1]
	}
	return out[h.rng.Intn(len(out))]
}

// settle answers everything outstanding (one answer per quiescent point in
// seq mode, back to back in burst mode) and reaches full quiescence.
func (h *histRun) settle() bool {
	for {
		if h.cfg.Mode == "seq" {
			if err := h.g.Quiesce(QOpts{AllowOutstanding: true}); err != nil {
				h.res.Inconclusive = "settle: " + err.Error()
				return false
			}
			h.ppoints = append(h.ppoints, h.g.Clock.Tick())
			h.checkCountersAll()
		}
		r := h.pickOutstanding()
		if r == nil {
			break
		}
		h.answer(r)
	}
	if err := h.g.Quiesce(QOpts{}); err != nil {
		// requests may have appeared after the last look
		if len(h.g.Bus.Outstanding()) > 0 {
			return h.settle()
		}
		h.res.Inconclusive = "settle: " + err.Error()
		return false
	}
	h.stat("quiescent_points", 1)
	h.qpoints = append(h.qpoints, h.g.Clock.Tick())
	h.ppoints = append(h.ppoints, h.qpoints[len(h.qpoints)-1])
	for k := range h.maybePending {
		h.maybePending[k] = map[string]bool{}
	}
	return true
}

func (h *histRun) openClients() []*WSClient {
	var out []*WSClient
	for _, c := range h.g.clientsSnapshot() {
		if !c.IsClosed() {
			out = append(out, c)
		}
	}
	return out
}

func (h *histRun) connect(ver string) *WSClient {
	before := map[string]bool{}
	for _, s := range h.g.Bus.ActiveSubs() {
		before[s] = true
	}
	c, _, err := h.g.Connect(ver, nil)
	if err != nil {
		h.res.Inconclusive = "connect: " + err.Error()
		return nil
	}
	for _, s := range h.g.Bus.ActiveSubs() {
		if !before[s] && strings.HasPrefix(s, "conn.") {
			c.CID = s[5:]
		}
	}
	rc := NewRefClient(c.Idx, ParseVersion(ver))
	if os.Getenv("VG_RCDEBUG") == fmt.Sprint(c.Idx) {
		rc.Debug = true
	}
	cl := c
	rc.RootErrorKeeps = func(rid string, t int64) (bool, bool) {
		name, _ := ridName(rid)
		name = strings.Replace(name, "{cid}", cl.CID, -1)
		// the access answers for this connection and resource since the last
		// full quiescent point (the most recent one if there is none): several
		// checks can be in flight (re-checks after triggers), and the request
		// may have been decided by any of them
		var lastQ int64
		for _, q := range h.qpoints {
			if q < t {
				lastQ = q
			}
		}
		grants, others := 0, 0
		var last *BusReq
		for _, r := range h.g.Bus.Reqs() {
			if r.Kind != "access" || r.CID != cl.CID || r.Name != name || !r.Done {
				continue
			}
			if last == nil || r.AnsT > last.AnsT {
				last = r
			}
			if r.AnsT > lastQ {
				if r.Outcome == "reply" && bytes.Contains(r.Reply, []byte(`"get":true`)) {
					grants++
				} else {
					others++
				}
			}
		}
		if last == nil {
			return false, false
		}
		if grants > 0 && others > 0 {
			return false, false // ambiguous: range accounting, resolved by the hook snapshot
		}
		if last.Outcome == "reply" && bytes.Contains(last.Reply, []byte(`"get":true`)) {
			return true, true // access granted: the error is the resource's own, the subscription stays
		}
		return false, true
	}
	h.rcs[c] = rc
	h.maybePending[c.Idx] = map[string]bool{}
	h.reqTarget[c.Idx] = map[uint64]string{}
	h.logf("connect conn=%d ver=%q cid=%s", c.Idx, ver, c.CID)
	return c
}

func (h *histRun) send(c *WSClient, method string, params interface{}, rids ...string) uint64 {
	id := c.Request(method, params, "")
	for _, rid := range rids {
		h.maybePending[c.Idx][rid] = true
	}
	h.stat("client_requests", 1)
	return id
}

func (h *histRun) anyOutstanding() bool { return len(h.g.Bus.Outstanding()) > 0 }

// step performs one randomly chosen operation.
func (h *histRun) step() {
	r := h.rng
	ops := make([]string, 0, len(h.cfg.W))
	for k := range h.cfg.W {
		ops = append(ops, k)
	}
	sort.Strings(ops)
	ws := make([]int, len(ops))
	for i, k := range ops {
		ws[i] = h.cfg.W[k]
	}
	op := ops[r.Weighted(ws)]
	clients := h.openClients()
	var c *WSClient
	if len(clients) > 0 {
		c = clients[r.Intn(len(clients))]
	}
	rid := h.names[r.Intn(len(h.names))]
	switch op {
	case "change", "add", "remove", "custom", "delete", "reaccess", "recreate":
		// {cid}-tagged resources are per connection; the world keeps them static
		if strings.Contains(rid, "{cid}") {
			return
		}
	}
	switch op {
	case "sub":
		if c == nil {
			return
		}
		h.logf("conn=%d subscribe.%s", c.Idx, rid)
		h.send(c, "subscribe."+rid, nil, rid)
	case "unsub":
		if c == nil {
			return
		}
		rc := h.rcs[c]
		// mostly target something the client believes it is subscribed to
		var cand []string
		for k, n := range rc.Direct {
			if n > 0 {
				cand = append(cand, k)
			}
		}
		sort.Strings(cand)
		if len(cand) > 0 && r.Chance(85) {
			rid = cand[r.Intn(len(cand))]
		}
		if h.cfg.AvoidF && h.maybePending[c.Idx][rid] {
			return
		}
		if h.cfg.AvoidUnsend && (h.anyOutstanding() || len(h.maybePending[c.Idx]) > 0) {
			return
		}
		var params interface{}
		switch r.Intn(10) {
		case 0:
			params = map[string]int{"count": 2}
		case 1:
			params = map[string]int{"count": 1}
		case 2:
			if r.Chance(30) {
				params = map[string]int{"count": 0}
			}
		}
		h.logf("conn=%d unsubscribe.%s %v", c.Idx, rid, params)
		h.send(c, "unsubscribe."+rid, params)
	case "get":
		if c == nil {
			return
		}
		h.logf("conn=%d get.%s", c.Idx, rid)
		h.send(c, "get."+rid, nil, rid)
	case "call":
		if c == nil {
			return
		}
		m := "m"
		if r.Chance(20) {
			m = "fail"
		}
		h.logf("conn=%d call.%s.%s", c.Idx, rid, m)
		h.send(c, "call."+rid+"."+m, map[string]int{"x": r.Intn(9)})
	case "callres":
		if c == nil {
			return
		}
		t := h.names[r.Intn(len(h.names))]
		h.logf("conn=%d call.%s.goto -> %s", c.Idx, rid, t)
		id := h.send(c, "call."+rid+".goto", map[string]string{"t": t}, t)
		h.reqTarget[c.Idx][id] = t
	case "new":
		if c == nil {
			return
		}
		t := h.names[r.Intn(len(h.names))]
		h.logf("conn=%d new.%s -> %s", c.Idx, rid, t)
		id := h.send(c, "new."+rid, map[string]string{"t": t}, t)
		h.reqTarget[c.Idx][id] = t
	case "auth":
		if c == nil {
			return
		}
		t := h.names[r.Intn(len(h.names))]
		h.logf("conn=%d auth.%s.goto -> %s", c.Idx, rid, t)
		id := h.send(c, "auth."+rid+".goto", map[string]string{"t": t}, t)
		h.reqTarget[c.Idx][id] = t
	case "change":
		res := h.w.Get(rid)
		if res == nil || res.Kind != RModel {
			return
		}
		ch := map[string]*Val{}
		n := 1 + r.Intn(2)
		removesRef := false
		for i := 0; i < n; i++ {
			k := modelKeys[r.Intn(len(modelKeys)-1)]
			if old, ok := res.M[k]; ok && old.Kind == VRef {
				removesRef = true
			}
			if r.Chance(20) {
				ch[k] = nil
			} else {
				v := h.randVal(0)
				ch[k] = &v
			}
		}
		if h.cfg.AvoidUnsend && removesRef && h.anyOutstanding() {
			return
		}
		seq := P(len(res.Stream) + 1)
		ch["_s"] = &seq
		if ev, ok := h.w.Change(rid, ch); ok {
			h.logf("event %s.change #%d %s", rid, ev.Seq, ev.Payload)
			h.stat("events_emitted", 1)
		}
	case "add":
		res := h.w.Get(rid)
		if res == nil || res.Kind != RColl {
			return
		}
		v := h.randVal(0)
		if v.Kind == VPrim {
			v = P(h.w.Unique())
		}
		if ev, ok := h.w.Add(rid, r.Intn(len(res.C)+1), v); ok {
			h.logf("event %s.add #%d %s", rid, ev.Seq, ev.Payload)
			h.stat("events_emitted", 1)
		}
	case "remove":
		res := h.w.Get(rid)
		if res == nil || res.Kind != RColl || len(res.C) == 0 {
			return
		}
		idx := r.Intn(len(res.C))
		if h.cfg.AvoidUnsend && res.C[idx].Kind == VRef && h.anyOutstanding() {
			return
		}
		if ev, ok := h.w.Remove(rid, idx); ok {
			h.logf("event %s.remove #%d %s", rid, ev.Seq, ev.Payload)
			h.stat("events_emitted", 1)
		}
	case "custom":
		if ev, ok := h.w.Custom(rid, "custom"); ok {
			h.logf("event %s.custom #%d", rid, ev.Seq)
			h.stat("events_emitted", 1)
		}
	case "delete":
		if ev, ok := h.w.Delete(rid); ok {
			h.logf("event %s.delete #%d", rid, ev.Seq)
			h.stat("events_emitted", 1)
		}
	case "recreate":
		if res := h.w.Get(rid); res != nil && res.Deleted {
			h.w.Recreate(rid)
			h.logf("recreate %s", rid)
		}
	case "reaccess":
		if ev, ok := h.w.Reaccess(rid); ok {
			h.logf("event %s.reaccess #%d", rid, ev.Seq)
			h.stat("events_emitted", 1)
		}
	case "answer":
		if rq := h.pickOutstanding(); rq != nil {
			h.answer(rq)
		}
	case "quiesce":
		if err := h.g.Quiesce(QOpts{AllowOutstanding: true}); err != nil {
			h.res.Inconclusive = "quiesce: " + err.Error()
		} else {
			h.ppoints = append(h.ppoints, h.g.Clock.Tick())
			h.checkCountersAll()
		}
	case "reset":
		h.reset()
	case "tokenreset":
		h.tokenResetSeq++
		var tids []string
		for i := 0; i < 1+r.Intn(2); i++ {
			if r.Chance(70) {
				tids = append(tids, fmt.Sprintf("tid%d", r.Intn(h.cfg.Conns)))
			} else {
				tids = append(tids, fmt.Sprintf("alt%d", r.Intn(3)))
			}
		}
		subj := fmt.Sprintf("auth.t.renew%d", h.tokenResetSeq)
		b, _ := json.Marshal(map[string]interface{}{"tids": tids, "subject": subj})
		h.logf("system.tokenReset %s", b)
		h.tokenResets = append(h.tokenResets, tokenReset{T: h.g.Clock.Tick(), TIDs: tids, Subject: subj})
		h.g.Bus.Event("system.tokenReset", b, nil)
	case "disconnect":
		if c == nil || len(clients) < 2 {
			return
		}
		h.logf("conn=%d disconnect", c.Idx)
		h.closedAt[c.Idx] = h.g.Clock.Tick()
		c.Close()
		h.stat("disconnects", 1)
	case "token":
		if c == nil || c.CID == "" {
			return
		}
		h.tokenSeq++
		tv := fmt.Sprintf(`{"conn":%d,"n":%d}`, c.Idx, h.tokenSeq)
		if r.Chance(10) {
			tv = "null"
		}
		tid := fmt.Sprintf("tid%d", c.Idx)
		if r.Chance(15) {
			tid = fmt.Sprintf("alt%d", r.Intn(3))
		}
		tok := fmt.Sprintf(`{"token":%s,"tid":"%s"}`, tv, tid)
		if r.Chance(25) {
			tid = ""
			tok = fmt.Sprintf(`{"token":%s}`, tv)
		}
		h.logf("conn=%d token %s", c.Idx, tok)
		if h.tokens == nil {
			h.tokens = map[int][]tokenSet{}
		}
		h.tokens[c.Idx] = append(h.tokens[c.Idx], tokenSet{T: h.g.Clock.Tick(), Token: canonJSON(tv), TID: tid})
		h.g.Bus.Event("conn."+c.CID+".token", []byte(tok), nil)
	}
}

// reset silently mutates some resources and publishes a system reset for them.
func (h *histRun) reset() {
	r := h.rng
	n := 1 + r.Intn(2)
	var pats []string
	for i := 0; i < n; i++ {
		name := h.names[r.Intn(len(h.names))]
		if strings.Contains(name, "{cid}") {
			continue
		}
		res := h.w.Get(name)
		if res == nil || res.Kind == RError {
			continue
		}
		h.w.Silent(name, func(res *Res) {
			switch res.Kind {
			case RModel:
				k := modelKeys[r.Intn(len(modelKeys)-1)]
				if r.Chance(25) {
					delete(res.M, k)
				} else {
					res.M[k] = h.randVal(0)
				}
				res.M["_s"] = P(fmt.Sprintf("reset%d", h.resets))
			case RColl:
				if len(res.C) > 0 && r.Chance(50) {
					i := r.Intn(len(res.C))
					res.C = append(append([]Val{}, res.C[:i]...), res.C[i+1:]...)
				} else {
					i := r.Intn(len(res.C) + 1)
					c := append([]Val{}, res.C[:i]...)
					c = append(c, P(h.w.Unique()))
					res.C = append(c, res.C[i:]...)
				}
			}
		})
		pats = append(pats, name)
	}
	h.resets++
	if r.Chance(20) {
		pats = []string{"t.>"}
	} else if r.Chance(15) {
		pats = append(pats, "t.*")
	}
	if len(pats) == 0 {
		return
	}
	h.logf("system.reset resources=%v", pats)
	// Every resource matching the patterns is covered by this reset.
	h.w.Bus.WithDelivery(func() {})
	h.w.SystemReset(pats, nil)
	h.w.mu.Lock()
	for name, res := range h.w.Res {
		for _, p := range pats {
			if refPatternMatch(p, name) {
				res.Silent = false
			}
		}
	}
	h.w.mu.Unlock()
	h.stat("resets", 1)
}

// newHistRun starts a gateway for a history or a script.
func newHistRun(cfg HistCfg) (*histRun, *HistResult) {
	res := &HistResult{Cfg: cfg, Stats: map[string]int64{}}
	h := &histRun{cfg: cfg, rng: NewRng(cfg.Seed), res: res,
		rcs: map[*WSClient]*RefClient{}, maybePending: map[int]map[string]bool{},
		reqTarget: map[int]map[uint64]string{}, closedAt: map[int]int64{}}
	if cfg.W == nil {
		h.cfg.W = DefaultWeights()
	}
	if h.cfg.GetOutcome == [4]int{} {
		h.cfg.GetOutcome = [4]int{100, 0, 0, 0}
	}
	if h.cfg.AccessOutcome == [4]int{} {
		h.cfg.AccessOutcome = [4]int{100, 0, 0, 0}
	}
	g, err := NewGate(GateOpts{
		Seed: cfg.Seed, Pct: cfg.Pct, SitePct: cfg.SitePct, Trace: cfg.Trace,
		UnsubDelay: time.Duration(cfg.UnsubDelayMs) * time.Millisecond,
		Cfg: func(c *server.Config) {
			c.ReferenceThrottle = cfg.RefThrottle
			c.ResetThrottle = cfg.ResetThrottle
			if cfg.Metrics {
				c.MetricsPort = 9191
			}
			if cfg.HTTPHeaderAuth != "" {
				ha := cfg.HTTPHeaderAuth
				c.HeaderAuth = &ha
			}
		},
	})
	if err != nil {
		res.Inconclusive = "gate: " + err.Error()
		return nil, res
	}
	h.g = g
	h.w = NewWorld(g.Bus)
	return h, res
}

// finish runs the end-of-history checks and tears the gateway down.
func (h *histRun) finish(ok bool) *HistResult {
	res := h.res
	if ok && res.Inconclusive == "" {
		if h.settle() {
			h.checkQuiescent(true)
			h.finalPhase()
		}
	}
	if ok && res.Inconclusive == "" {
		h.checkC03()
		h.checkBoundary()
		h.checkTokenResets()
		h.checkAccessCurrency()
	}
	res.Counters = verifhook.Counters()
	res.Notes = verifhook.Notes()
	h.signature()
	if len(res.Viol) > 0 || res.Inconclusive != "" {
		h.attachWitness()
	}
	h.g.CloseAll()
	h.g.Stop()
	return res
}

// RunHistory executes one generated history and all generic monitors.
func RunHistory(cfg HistCfg) *HistResult {
	h, res := newHistRun(cfg)
	if h == nil {
		return res
	}
	h.buildUniverse()
	for i := 0; i < cfg.Conns; i++ {
		ver := ""
		if len(cfg.Versions) > 0 {
			ver = cfg.Versions[i%len(cfg.Versions)]
		}
		if h.connect(ver) == nil {
			h.g.Stop()
			return res
		}
	}
	ok := h.settle()
	for i := 0; ok && i < cfg.Steps && res.Inconclusive == ""; i++ {
		h.stepNo = i + 1
		h.step()
		if cfg.Mode == "seq" || (cfg.Burst > 0 && (i+1)%cfg.Burst == 0) {
			if ok = h.settle(); ok {
				h.checkQuiescent(false)
			}
		}
	}
	h.stepNo = cfg.Steps + 1
	return h.finish(ok)
}

func (h *histRun) attachWitness() {
	res := h.res
	res.Frames = map[int][]string{}
	for _, c := range h.g.clientsSnapshot() {
		for _, f := range c.Frames() {
			if f.Fence {
				continue
			}
			res.Frames[c.Idx] = append(res.Frames[c.Idx], fmt.Sprintf("%d %s", f.T, f.Raw))
		}
	}
	for _, e := range h.g.Bus.Log() {
		p := string(e.Payload)
		if len(p) > 300 {
			p = p[:300] + "..."
		}
		res.BusLog = append(res.BusLog, fmt.Sprintf("%d %s %s %s", e.T, e.Kind, e.Subject, p))
	}
	res.ErrLog = h.g.Log.ErrorLines()
}

// feed hands the new frames of every client to its reference client.
func (h *histRun) feed() {
	for _, c := range h.g.clientsSnapshot() {
		rc := h.rcs[c]
		if rc == nil {
			continue
		}
		for _, s := range c.Sent() {
			if _, ok := rc.sent[s.ID]; !ok {
				rc.NoteSent(s)
			}
		}
		for _, f := range c.NewFrames() {
			f := f
			rc.Process(&f)
			h.stat("frames", 1)
			if f.Event != "" {
				h.stat("event_frames", 1)
			}
		}
	}
}

// hasConnNote reports whether the hook site was noted for any resource of the connection.
func (h *histRun) hasConnNote(site, cid string) bool {
	for _, n := range verifhook.Notes() {
		if n.Site == site && strings.HasPrefix(n.Detail, cid+" ") {
			return true
		}
	}
	return false
}

// checkCounters asserts the structural invariants of one connection's
// subscriptions at a point where the gateway is idle (service requests may be
// outstanding): the reference counters the retention decisions are based on
// agree with the reference graph.
func (h *histRun) checkCounters(c *WSClient, snap server.VerifConnSnap, now int64) {
	// --- C02 structure: the reference counters the retention decisions
	// (tryDelete / Unsend / populateResources) are based on must agree
	// with the reference graph of the connection's subscriptions
	wantInd := map[string]int{}
	wantSent := map[string]int{}
	for _, ps := range snap.Subs {
		for ref := range ps.Refs {
			wantInd[ref]++
			if (ps.State == 5 || ps.State == 6) && !ps.PendingRefs[ref] {
				wantSent[ref]++
			}
		}
	}
	if h.counterSeen == nil {
		h.counterSeen = map[string]bool{}
	}
	for rid, hs := range snap.Subs {
		h.stat("c02_counters_checked", 1)
		ws := wantSent[rid]
		if hs.State != 5 && hs.State != 6 {
			ws = 0 // not (or no longer) sent: Unsend resets the counter
		}
		if hs.Err != "" {
			// an error placeholder is re-sent with every populate and has
			// no references of its own: its sent counter decides nothing
			ws = hs.IndirectSent
		}
		if hs.State == 5 && hs.Direct == 0 && hs.IndirectSent == 0 && hs.Indirect == wantInd[rid] && ws == 0 {
			// marked as sent to the client although neither a direct
			// subscription nor a sent parent holds it: the client has
			// dropped it, a later reference will come without its data
			sig := "sentWithoutHolder"
			if h.hasNote("populate.deleted", c.CID, rid) {
				sig += ".populateDeleted"
			}
			if key := fmt.Sprintf("h %s %s", c.CID, rid); !h.counterSeen[key] {
				h.counterSeen[key] = true
				h.viol(Viol{Prop: "C02", Conn: c.Idx, T: now, RID: rid, Sig: sig,
					Msg: fmt.Sprintf("subscription %s is in state sent with no direct subscription and no sent parent (indirect=%d); all subs: %s", rid, hs.Indirect, subsSummary(snap))})
			}
		}
		if hs.Indirect != wantInd[rid] || hs.IndirectSent != ws {
			sig := "refCountDrift"
			if hs.Indirect == wantInd[rid] {
				sig = "sentCountDrift"
			}
			// finding C: a deleted subscription that is populated again is
			// re-sent, counting its references a second time
			// (the revived subscription may be gone by now: any revival on
			// this connection counts)
			revived := h.hasConnNote("populate.deleted", c.CID)
			// an event processed on an unsent subscription of this connection
			// may have added or removed a reference to this one meanwhile
			unsent := h.hasConnNote("sub.eventUnsent", c.CID)
			for prid, ps := range snap.Subs {
				if _, ok := ps.Refs[rid]; ok {
					revived = revived || h.hasNote("populate.deleted", c.CID, prid)
					unsent = unsent || h.hasNote("sub.eventUnsent", c.CID, prid)
				}
			}
			if h.driftTag == nil {
				h.driftTag = map[string]string{}
			}
			if h.hasNote("populate.loading", c.CID, rid) && !revived && !unsent {
				// finding Y: the subscription was collected for a response while
				// still loading (counted as sent, later reset by its Loaded)
				sig += ".populateLoading"
				h.driftTag[c.CID+" "+rid] = ".populateLoading"
				if key := fmt.Sprintf("d %s %s %d %d %d %d", c.CID, rid, hs.Indirect, hs.IndirectSent, wantInd[rid], ws); !h.counterSeen[key] {
					h.counterSeen[key] = true
					h.viol(Viol{Prop: "C02", Conn: c.Idx, T: now, RID: rid, Sig: sig,
						Msg: fmt.Sprintf("subscription %s counts indirect=%d indirectsent=%d but %d subscriptions refer to it, %d of them sent; all subs: %s", rid, hs.Indirect, hs.IndirectSent, wantInd[rid], wantSent[rid], subsSummary(snap))})
				}
				continue
			}
			if prev := h.driftTag[c.CID+" "+rid]; prev != "" && !revived && !unsent {
				// the same counter was already off at an earlier quiescent
				// point, for a known reason: the offset stays
				sig += prev
			} else if revived {
				sig += ".populateDeleted"
				h.driftTag[c.CID+" "+rid] = ".populateDeleted"
			} else if unsent {
				h.driftTag[c.CID+" "+rid] = ".eventWhileUnsent"
				// finding E: the affected subscription, or one referring to
				// it, processed an event while marked as not sent (hook note
				// sub.eventUnsent): a reference it added is counted as sent,
				// a delete makes it count as a sent parent again
				sig += ".eventWhileUnsent"
			}
			if key := fmt.Sprintf("d %s %s %d %d %d %d", c.CID, rid, hs.Indirect, hs.IndirectSent, wantInd[rid], ws); !h.counterSeen[key] {
				h.counterSeen[key] = true
				h.viol(Viol{Prop: "C02", Conn: c.Idx, T: now, RID: rid, Sig: sig,
					Msg: fmt.Sprintf("subscription %s counts indirect=%d indirectsent=%d but %d subscriptions refer to it, %d of them sent; all subs: %s", rid, hs.Indirect, hs.IndirectSent, wantInd[rid], wantSent[rid], subsSummary(snap))})
			}
		}
	}
}

// checkCountersAll runs the counter invariants for every open connection (the
// gateway is idle; service requests may be outstanding).
func (h *histRun) checkCountersAll() {
	snaps := map[string]server.VerifConnSnap{}
	for _, s := range h.g.Svc.VerifConns() {
		snaps[s.CID] = s
	}
	now := h.g.Clock.Now()
	for _, c := range h.g.clientsSnapshot() {
		if c.IsClosed() || h.rcs[c] == nil {
			continue
		}
		if snap, ok := snaps[c.CID]; ok && snap.Reachable {
			h.checkCounters(c, snap, now)
			h.stat("c02_partial_counter_checks", 1)
		}
	}
}

// deletedSubLives reports whether the connection's subscription on rid is not
// (or no longer) listed as subscriber by the cache although it is loaded: it
// received a delete event and lives on (finding C).
func (h *histRun) deletedSubLives(cid, rid string) bool {
	name, q := ridName(rid)
	for _, e := range h.g.Svc.VerifCache().VerifSnapshot() {
		if e.Name != name {
			continue
		}
		rss := []*rescache.VerifRS{e.Base}
		for _, rs := range e.Queries {
			rss = append(rss, rs)
		}
		for _, rs := range rss {
			if rs == nil || rs.Query != q {
				continue
			}
			for _, sub := range rs.Subs {
				if sub.CID == cid && sub.RID == rid {
					return false
				}
			}
		}
	}
	return true
}

// reachableFromPHeld reports whether rid is reachable, in the gateway's own
// reference graph of the connection, from a resource whose violations were
// attributed to finding P.
func (h *histRun) reachableFromPHeld(cid string, snap server.VerifConnSnap, rid string) bool {
	seen := map[string]bool{}
	var stack []string
	for k := range h.pHeld {
		if strings.HasPrefix(k, cid+" ") {
			r := k[len(cid)+1:]
			seen[r] = true
			stack = append(stack, r)
		}
	}
	for len(stack) > 0 {
		r := stack[len(stack)-1]
		stack = stack[:len(stack)-1]
		for ref := range snap.Subs[r].Refs {
			if ref == rid {
				return true
			}
			if !seen[ref] {
				seen[ref] = true
				stack = append(stack, ref)
			}
		}
	}
	return false
}

// noteRIDs lists the resource ids the hook site was noted for on the connection.
func (h *histRun) noteRIDs(site, cid string) []string {
	var out []string
	for _, n := range verifhook.Notes() {
		if n.Site == site && strings.HasPrefix(n.Detail, cid+" ") {
			out = append(out, n.Detail[len(cid)+1:])
		}
	}
	return out
}

func (h *histRun) hasNote(site, cid, rid string) bool {
	want := cid + " " + rid
	for _, n := range verifhook.Notes() {
		if n.Site == site && n.Detail == want {
			return true
		}
	}
	return false
}

// checkQuiescent runs the monitors that are defined at full quiescence.
func (h *histRun) checkQuiescent(final bool) {
	h.feed()
	snaps := map[string]server.VerifConnSnap{}
	for _, s := range h.g.Svc.VerifConns() {
		snaps[s.CID] = s
	}
	cacheSnap := h.g.Svc.VerifCache().VerifSnapshot()
	now := h.g.Clock.Now()
	if os.Getenv("VG_SUBDEBUG") != "" {
		for _, c := range h.g.clientsSnapshot() {
			if sn, ok := snaps[c.CID]; ok {
				h.logf("     [subs conn=%d] %s", c.Idx, subsSummary(sn))
			}
		}
	}

	for _, c := range h.g.clientsSnapshot() {
		rc := h.rcs[c]
		if rc == nil {
			continue
		}
		// --- C07: exactly one response per request (the connection must still
		// be open: requests of a closed connection are C11's business)
		if !c.IsClosed() {
			for _, s := range c.Sent() {
				if s.Fence || s.Tag == "noreply" {
					continue
				}
				if rc.Responses[s.ID] == 0 {
					sig := "noResponse"
					_, srid, _ := methodParts(s.Method)
					if h.hasNote("sub.disposePending", c.CID, srid) || (h.reqTarget[c.Idx][s.ID] != "" && h.hasNote("sub.disposePending", c.CID, h.reqTarget[c.Idx][s.ID])) {
						sig = "noResponse.disposePending"
					} else if h.hasNote("sub.onLoadedDisposed", c.CID, srid) || (h.reqTarget[c.Idx][s.ID] != "" && h.hasNote("sub.onLoadedDisposed", c.CID, h.reqTarget[c.Idx][s.ID])) {
						sig = "noResponse.onLoadedDisposed"
					}
					h.viol(Viol{Prop: "C07", Conn: c.Idx, T: now, RID: s.Method, Sig: sig,
						Msg: fmt.Sprintf("request id=%d %s has no response at full quiescence", s.ID, s.Method)})
					// report once
					rc.Responses[s.ID] = -1000
				}
			}
		}
		if c.IsClosed() {
			continue
		}
		snap, haveSnap := snaps[c.CID]
		// --- C01: convergence
		for _, rid := range rc.Retained() {
			res := rc.Cache[rid]
			h.stat("c01_pairs", 1)
			if res.Kind == RError || res.Deleted || res.Tentative {
				h.stat("c01_skipped", 1)
				continue
			}
			name, _ := ridName(rid)
			wr := h.w.Get(name)
			if wr == nil {
				continue
			}
			if wr.Silent {
				h.stat("c01_skipped", 1)
				continue
			}
			if wr.Deleted {
				sig := "heldAfterDelete"
				if h.hasNote("populate.deleted", c.CID, rid) {
					sig = "heldAfterDelete.populateDeleted"
				} else if h.hasNote("sub.unsend", c.CID, rid) {
					sig = "heldAfterDelete.unsendRevived"
				}
				h.viol(Viol{Prop: "C01", Conn: c.Idx, T: now, RID: rid, Sig: sig,
					Msg: fmt.Sprintf("client holds data of %s delivered at t=%d although the service deleted it and no delete event followed", rid, res.FromT)})
				res.Deleted = true
				continue
			}
			exp := h.w.ClientState(name, rc.Ver)
			if wr.Q != nil {
				_, q := ridName(rid)
				if h.w.QueryDesynced(name, q) {
					h.stat("c01_skipped", 1)
					continue
				}
				exp = h.w.QueryClientState(name, q, rc.Ver)
			}
			got := rc.State(rid)
			h.stat("c01_compared", 1)
			if !JSONEqual(exp, got) {
				sig := "diverged"
				if res.MissedStray {
					// finding K: the copy came with a get response and the events
					// the gateway flushed after it were not for a held resource
					sig = "diverged.afterGet"
				} else if h.hasNote("populate.deleted", c.CID, rid) {
					// finding C: revived from the snapshot of before the delete
					// event (the service has recreated the resource since); the
					// revived subscription gets no events
					sig = "diverged.populateDeleted"
				} else if h.hasNote("sub.unsend", c.CID, rid) || h.heldViaStale(c, rc, rid) {
					sig = "diverged.afterUnsend"
				}
				h.viol(Viol{Prop: "C01", Conn: c.Idx, T: now, RID: rid, Sig: sig,
					Msg: fmt.Sprintf("client copy of %s = %s but service state (v%d encoding) = %s", rid, Compact(got), rc.Ver, Compact(exp))})
				// avoid repeating the same divergence at every later point
				res.Deleted = true
			}
		}
		// --- C08: direct subscription accounting
		for i := range rc.Unsubs {
			u := &rc.Unsubs[i]
			if u.Count == -12345 {
				continue
			}
			if u.Certain {
				h.stat("c08_unsub_checked", 1)
				wantOK := !u.BadParams && u.Count >= 1 && u.Count <= u.Before
				wantCode := ""
				if u.BadParams {
					wantCode = "system.invalidParams"
				} else if !wantOK {
					wantCode = "system.noSubscription"
				}
				if u.OK != wantOK || (!u.OK && u.Code != wantCode) {
					h.viol(Viol{Prop: "C08", Conn: c.Idx, T: now, RID: u.RID, Sig: "unsubOutcome",
						Msg: fmt.Sprintf("unsubscribe.%s count=%d with %d direct subscriptions: got ok=%v code=%q, expected ok=%v code=%q", u.RID, u.Count, u.Before, u.OK, u.Code, wantOK, wantCode)})
				}
			}
			u.Count = -12345 // checked
		}
		if haveSnap && snap.Reachable {
			rids := map[string]bool{}
			for rid := range rc.Direct {
				rids[rid] = true
			}
			for rid := range snap.Subs {
				rids[rid] = true
			}
			for rid := range rids {
				hs, ok := snap.Subs[rid]
				hd := 0
				if ok {
					hd = hs.Direct
				}
				h.stat("c08_direct_compared", 1)
				if hd >= rc.Direct[rid] && hd <= rc.Direct[rid]+rc.Extra[rid] {
					// the hook settles an uncertain count
					rc.Direct[rid] = hd
					rc.Extra[rid] = 0
				}
				if hd != rc.Direct[rid] {
					sig := "directMismatch"
					if h.hasNote("populate.deleted", c.CID, rid) {
						sig = "directMismatch.populateDeleted"
					} else if h.hadDelete(rid) && h.hasNote("sub.unsend", c.CID, rid) {
						// finding C: Unsend reset the state of a subscription that
						// had received a delete event; it then lives on as a
						// normal one, outside the cache, released twice
						sig = "directMismatch.unsendRevived"
					} else if h.hadDelete(rid) {
						if hs, ok := snap.Subs[rid]; !ok || hs.State == 6 || !hs.HasRS || h.deletedSubLives(c.CID, rid) {
							// finding C: the subscription outlived its delete event
							sig = "directMismatch.afterDelete"
						}
					}
					h.viol(Viol{Prop: "C08", Conn: c.Idx, T: now, RID: rid, Sig: sig,
						Msg: fmt.Sprintf("gateway holds %d direct subscriptions on %s, protocol accounting says %d", hd, rid, rc.Direct[rid])})
					if hd >= 0 {
						if hd > rc.Direct[rid] {
							rc.Extra[rid] = hd - rc.Direct[rid]
						} else {
							rc.Direct[rid] = hd
						}
					}
				}
				if ok && hs.Direct == 0 && hs.Indirect == 0 && hs.IndirectSent == 0 {
					h.viol(Viol{Prop: "C08", Conn: c.Idx, T: now, RID: rid, Sig: "residue",
						Msg: fmt.Sprintf("subscription %s left behind with no direct or indirect use (state=%d refs=%v); all subs: %s", rid, hs.State, hs.Refs, subsSummary(snap))})
				}
			}
			h.checkCounters(c, snap, now)
			// --- C02 cross-check: what the gateway believes the client holds
			for rid, hs := range snap.Subs {
				_, held := rc.Cache[rid]
				if hs.State == 5 && !held {
					h.stat("c02_sent_not_held", 1)
				}
				if held && hs.State != 5 && hs.State != 6 && rc.Cache[rid].Kind != RError {
					h.stat("c02_held_not_sent", 1)
				}
			}
			for rid := range rc.Cache {
				if _, ok := snap.Subs[rid]; !ok {
					h.stat("c02_held_unknown_to_gateway", 1)
				}
			}
		}
	}
	// --- C02/C06 etc. violations noted by the reference clients
	for _, c := range h.g.clientsSnapshot() {
		rc := h.rcs[c]
		if rc == nil {
			continue
		}
		for _, v := range rc.Viol {
			if v.Prop == "C02" && (v.Sig == "addIdxRange" || v.Sig == "removeIdxRange") && h.hasNote("sub.unsend", c.CID, v.RID) {
				// finding A: the client's copy is the stale snapshot the resource
				// was re-sent with after Unsend; a later index does not fit it
				v.Sig += ".afterUnsend"
			} else if v.Prop == "C02" && (v.Sig == "strayEvent" || v.Sig == "dangling" || v.Sig == "rootMissing") && (h.hasNote("sub.unsend", c.CID, v.RID) || (v.Holder != "" && h.hasNote("sub.unsend", c.CID, v.Holder) && (!h.worldHasRef(v.Holder, v.RID) || h.copyStale(rc, v.Holder)))) {
				// finding A/E: the resource itself was un-sent, or the holder was
				// re-sent with a stale snapshot whose reference the service's
				// current state no longer has
				v.Sig += ".afterUnsend"
			} else if v.Prop == "C02" && h.lostToUnsend(c.CID, rc, v.RID) {
				// consequence of an ignored stray event (finding E) that carried this
				// resource (possibly through further stray events it caused)
				v.Sig += ".afterUnsend"
			} else if v.Prop == "C02" && v.Holder != "" && h.lostToUnsend(c.CID, rc, v.Holder) {
				v.Sig += ".afterUnsend"
			}
			if v.Prop == "C02" && !strings.Contains(v.Sig, ".after") && (rc.LostAfterGet[v.RID] || (v.Holder != "" && rc.LostAfterGet[v.Holder])) {
				// consequence of finding K: the events flushed after a get response
				// carried this resource; the client ignored them with their
				// resources, the gateway counts the resource as sent
				v.Sig += ".afterGet"
			}
			if v.Prop == "C02" && v.DropT > 0 && rc.TargetPendingAt(v.RID, v.DropT) {
				v.Sig += ".droppedWhilePending"
				if h.pHeld == nil {
					h.pHeld = map[string]bool{}
				}
				h.pHeld[c.CID+" "+v.RID] = true
			} else if v.Prop == "C02" && !strings.Contains(v.Sig, ".") && h.reachableFromPHeld(c.CID, snaps[c.CID], v.RID) {
				// finding P: the gateway takes a resource the client dropped while a
				// request was pending as still held - and with it everything that
				// resource refers to
				v.Sig += ".droppedWhilePending"
			}
			if v.Prop == "C02" && !strings.Contains(v.Sig, ".") && h.hasNote("populate.loading", c.CID, v.RID) {
				// finding Y: referenced in a response that collected it while it
				// was still loading, so without its data
				v.Sig += ".populateLoading"
			}
			// a resource (or its holder) that was carried by an ignored stray event
			// shares the cause of that stray event
			if v.Prop == "C02" && !strings.Contains(v.Sig, ".") {
				for _, r := range []string{v.RID, v.Holder} {
					if sr := rc.LostInStray[r]; r != "" && sr != "" && h.strayCause[c.CID+" "+sr] != "" {
						v.Sig += h.strayCause[c.CID+" "+sr]
						break
					}
				}
			}
			if v.Prop == "C02" && strings.HasPrefix(v.Sig, "strayEvent.") {
				if h.strayCause == nil {
					h.strayCause = map[string]string{}
				}
				h.strayCause[c.CID+" "+v.RID] = v.Sig[len("strayEvent"):]
			}
			if h.hasNote("populate.deleted", c.CID, v.RID) || (v.Prop == "C02" && v.Sig == "dangling" && v.Holder != "" && h.hasNote("populate.deleted", c.CID, v.Holder)) ||
				(v.Prop == "C02" && h.driftTag[c.CID+" "+v.RID] == ".populateDeleted") {
				// finding C: the resource, or the holder whose dead snapshot
				// names it, was revived after its delete event; or its sent
				// counter is known to be off because a revived subscription
				// counted its references a second time
				v.Sig += ".populateDeleted"
			}
			h.viol(v)
		}
		rc.Viol = nil
	}
	h.checkCache(cacheSnap, snaps, final)
	for _, v := range h.g.Bus.Violations() {
		prop := "C14"
		if strings.HasPrefix(v, "C09") {
			prop = "C09"
		}
		h.viol(Viol{Prop: prop, T: now, Sig: "busAssert", Msg: v})
	}
	h.g.Bus.mu.Lock()
	h.g.Bus.viol = nil
	h.g.Bus.mu.Unlock()
	for _, s := range h.g.ConnLeaks {
		h.viol(Viol{Prop: "C11", T: now, Sig: "connLeak", Msg: s})
	}
	h.g.ConnLeaks = nil
	h.g.mu.Lock()
	dead := h.g.DeadConnReqs
	h.g.DeadConnReqs = nil
	h.g.mu.Unlock()
	for _, s := range dead {
		h.viol(Viol{Prop: "C11", T: now, Sig: "requestAfterRelease", Msg: s})
	}
}

// unsubOverlap reports whether a successful unsubscribe on the request's rid
// (or its resource-response target) was issued after the request.
func (h *histRun) unsubOverlap(c *WSClient, rc *RefClient, s SentReq) bool {
	_, rid, _ := methodParts(s.Method)
	target := h.reqTarget[c.Idx][s.ID]
	for _, u := range c.Sent() {
		if u.T <= s.T || !strings.HasPrefix(u.Method, "unsubscribe.") {
			continue
		}
		urid := u.Method[len("unsubscribe."):]
		if urid != rid && urid != target {
			continue
		}
		if f := rc.RespFrame[u.ID]; f != nil && f.Error == nil {
			return true
		}
	}
	return false
}

// checkCache asserts the structural invariants of the cache at quiescence.
func (h *histRun) checkCache(entries []rescache.VerifEntry, snaps map[string]server.VerifConnSnap, final bool) {
	now := h.g.Clock.Now()
	type key struct{ cid, rid string }
	inCache := map[key]string{}
	for _, e := range entries {
		h.stat("c09_entries_checked", 1)
		total := 0
		var rss []*rescache.VerifRS
		seen := map[*rescache.VerifRS]bool{}
		if e.Base != nil && !seen[e.Base] {
			rss = append(rss, e.Base)
			seen[e.Base] = true
		}
		for _, rs := range e.Queries {
			if !seen[rs] {
				rss = append(rss, rs)
				seen[rs] = true
			}
		}
		for _, rs := range rss {
			// a base that is a link to a query entry is listed under Queries too
			if rs == e.Base && e.Base.Query != "" {
				if q, ok := e.Queries[e.Base.Query]; ok && q != rs {
					// distinct snapshot objects of the same rs: skip the base copy
					continue
				}
			}
			total += len(rs.Subs)
			for _, s := range rs.Subs {
				inCache[key{s.CID, s.RID}] = e.Name
				cs, ok := snaps[s.CID]
				if !ok {
					sig := "subscriberOfDeadConn"
					h.viol(Viol{Prop: "C09", T: now, RID: e.Name, Sig: sig,
						Msg: fmt.Sprintf("cache entry %s lists subscriber %s of connection %s which is gone", e.Name, s.RID, s.CID)})
					continue
				}
				if !cs.Reachable {
					continue
				}
				hs, ok := cs.Subs[s.RID]
				if !ok || !hs.HasRS {
					h.viol(Viol{Prop: "C09", T: now, RID: e.Name, Sig: "subscriberNotLive",
						Msg: fmt.Sprintf("cache entry %s lists subscriber %s/%s which is not a live loaded subscription", e.Name, s.CID, s.RID)})
				}
			}
		}
		for _, q := range e.DeadLinks {
			h.viol(Viol{Prop: "C13", T: now, RID: e.Name, Sig: "deadLink",
				Msg: fmt.Sprintf("cache entry %s links raw query %q to a query resource (%q) that is no longer registered", e.Name, q, e.Links[q])})
		}
		if e.Count < 0 {
			h.viol(Viol{Prop: "C09", T: now, RID: e.Name, Sig: "negativeCount", Msg: fmt.Sprintf("cache entry %s has count %d", e.Name, e.Count)})
		} else if int(e.Count) != total {
			sig := "countMismatch"
			h.viol(Viol{Prop: "C09", T: now, RID: e.Name, Sig: sig,
				Msg: fmt.Sprintf("cache entry %s has count %d but %d subscribers and nothing in flight", e.Name, e.Count, total)})
		}
		if !e.MQSub && e.Count > 0 {
			h.viol(Viol{Prop: "C09", T: now, RID: e.Name, Sig: "usedWithoutMQSub", Msg: fmt.Sprintf("cache entry %s in use (count %d) without event subscription", e.Name, e.Count)})
		}
		if e.MQSub && !h.g.Bus.HasSub("event."+e.Name) {
			h.viol(Viol{Prop: "C09", T: now, RID: e.Name, Sig: "mqSubMissing", Msg: fmt.Sprintf("cache entry %s believes it is subscribed but event.%s is not subscribed at the bus", e.Name, e.Name)})
		}
	}
	// every loaded subscription of a live connection must be a subscriber of its entry
	for cid, cs := range snaps {
		if !cs.Reachable {
			continue
		}
		for rid, hs := range cs.Subs {
			if hs.HasRS && hs.State != 6 {
				if _, ok := inCache[key{cid, rid}]; !ok {
					sig := "subscriptionNotInCache"
					if h.hasNote("populate.deleted", cid, rid) {
						sig += ".populateDeleted"
					} else if h.hadDelete(rid) {
						sig += ".afterDelete"
					}
					h.viol(Viol{Prop: "C09", T: now, RID: rid, Sig: sig,
						Msg: fmt.Sprintf("subscription %s/%s is loaded but the cache does not list it as subscriber", cid, rid)})
				}
			}
		}
	}
	// every event.* subscription at the bus belongs to a cache entry
	names := map[string]bool{}
	for _, e := range entries {
		names[e.Name] = true
	}
	for _, ns := range h.g.Bus.ActiveSubs() {
		if strings.HasPrefix(ns, "event.") && !names[ns[6:]] {
			h.viol(Viol{Prop: "C09", T: now, RID: ns[6:], Sig: "orphanMQSub", Msg: "bus subscription " + ns + " without cache entry"})
		}
	}
}

// finalPhase disconnects everything and checks that nothing is left.
func (h *histRun) finalPhase() {
	open := h.openClients()
	h.finalClosed = map[int]bool{}
	for _, c := range open {
		h.closedAt[c.Idx] = h.g.Clock.Tick()
		h.finalClosed[c.Idx] = true
		c.Close()
	}
	h.logf("final: all %d connections closed", len(open))
	if err := h.g.Quiesce(QOpts{}); err != nil {
		h.res.Inconclusive = "final quiesce: " + err.Error()
		return
	}
	now := h.g.Clock.Now()
	// C11: late work for closed connections is reported by checkLate
	if n := h.g.Svc.VerifConnCount(); n != 0 {
		h.viol(Viol{Prop: "C11", T: now, Sig: "connLeak", Msg: fmt.Sprintf("%d connections registered after all clients disconnected", n)})
	}
	for _, ns := range h.g.Bus.ActiveSubs() {
		if strings.HasPrefix(ns, "conn.") {
			h.viol(Viol{Prop: "C11", T: now, RID: ns, Sig: "connSubLeft", Msg: "bus subscription " + ns + " left after disconnect"})
		}
		if strings.HasPrefix(ns, "event.") {
			sig := "eventSubLeft"
			h.viol(Viol{Prop: "C09", T: now, RID: ns[6:], Sig: sig, Msg: "bus subscription " + ns + " left with no clients and nothing in flight"})
		}
	}
	for _, e := range h.g.Svc.VerifCache().VerifSnapshot() {
		h.viol(Viol{Prop: "C09", T: now, RID: e.Name, Sig: "entryLeft", Msg: fmt.Sprintf("cache entry %s (count %d) left with no clients and nothing in flight", e.Name, e.Count)})
	}
	h.checkLate()
	if h.cfg.Metrics {
		h.checkGauges(now)
	}
	h.stat("final_checks", 1)
}

// signature computes the interleaving signature of this execution.
func (h *histRun) signature() {
	var sb strings.Builder
	for _, e := range h.g.Bus.Log() {
		sb.WriteString(e.Kind)
		sb.WriteByte(' ')
		s := e.Subject
		for _, c := range h.g.clientsSnapshot() {
			if c.CID != "" {
				s = strings.Replace(s, c.CID, fmt.Sprintf("<c%d>", c.Idx), -1)
			}
		}
		sb.WriteString(s)
		sb.WriteByte('\n')
	}
	for _, c := range h.g.clientsSnapshot() {
		for _, f := range c.Frames() {
			if f.Fence {
				continue
			}
			if f.HasID {
				fmt.Fprintf(&sb, "c%d r%d\n", c.Idx, *f.ID)
			} else {
				fmt.Fprintf(&sb, "c%d e %s\n", c.Idx, f.Event)
			}
		}
	}
	keys := make([]string, 0, len(h.res.Counters))
	for k := range h.res.Counters {
		if strings.HasPrefix(k, "point.") || k == "ws.write" {
			continue
		}
		keys = append(keys, k)
	}
	sort.Strings(keys)
	for _, k := range keys {
		fmt.Fprintf(&sb, "%s=%d\n", k, h.res.Counters[k])
	}
	h.res.Sig = Hash64(sb.String())
}

func subsSummary(snap server.VerifConnSnap) string {
	var rids []string
	for rid := range snap.Subs {
		rids = append(rids, rid)
	}
	sort.Strings(rids)
	var sb strings.Builder
	for _, rid := range rids {
		hs := snap.Subs[rid]
		fmt.Fprintf(&sb, "[%s d=%d i=%d is=%d st=%d err=%q refs=%v] ", rid, hs.Direct, hs.Indirect, hs.IndirectSent, hs.State, hs.Err, hs.Refs)
	}
	return sb.String()
}

// checkGauges scrapes /metrics at quiescence and requires the cache gauges to be zero.
func (h *histRun) checkGauges(now int64) {
	mh := h.g.Svc.MetricsHandler()
	if mh == nil {
		return
	}
	rec := httptest.NewRecorder()
	req, _ := http.NewRequest("GET", "/metrics", nil)
	mh.ServeHTTP(rec, req)
	for _, line := range strings.Split(rec.Body.String(), "\n") {
		for _, g := range []string{"resgate_cache_resources", "resgate_cache_subscriptions"} {
			if strings.HasPrefix(line, g+" ") {
				h.stat("c09_gauges_read", 1)
				if v := strings.TrimSpace(line[len(g):]); v != "0" && v != "0.0" {
					sig := "gaugeNotZero"
					for _, n := range verifhook.Notes() {
						if n.Site == "populate.deleted" {
							sig = "gaugeNotZero.populateDeleted"
						}
					}
					if sig == "gaugeNotZero" {
						for _, n := range verifhook.Notes() {
							if n.Site == "sub.disposeQueuedDelete" {
								sig = "gaugeNotZero.disposeQueuedDelete"
							}
						}
					}
					h.viol(Viol{Prop: "C09", T: now, RID: g, Sig: sig, Msg: fmt.Sprintf("%s reads %s with no clients and nothing in flight", g, v)})
				}
			}
		}
	}
}

// hadDelete reports whether the service ever emitted a delete event for the resource.
func (h *histRun) hadDelete(rid string) bool {
	name, _ := ridName(rid)
	wr := h.w.Get(name)
	if wr == nil {
		return false
	}
	for _, ev := range wr.Stream {
		if ev.Kind == "delete" {
			return true
		}
	}
	return false
}

// worldHasRef reports whether the service's current state of holder has a
// non-soft reference to rid.
// heldViaStale reports whether the client keeps rid only through resources that
// were re-sent with a stale snapshot after Unsend (finding A): the gateway does
// not hold rid for the client then, and sends no events for it.
func (h *histRun) heldViaStale(c *WSClient, rc *RefClient, rid string) bool {
	stale := func(r string) bool {
		return r != rid && h.hasNote("sub.unsend", c.CID, r) && h.copyStale(rc, r)
	}
	return rc.Cache[rid] != nil && !rc.ReachableAvoiding(rid, stale)
}

// copyStale reports whether the client's copy of a (non-query) resource
// differs from the service's current state: with the hook note sub.unsend for
// it, it is the stale snapshot it was re-sent with (finding A).
func (h *histRun) copyStale(rc *RefClient, rid string) bool {
	name, q := ridName(rid)
	if q != "" || rc.Cache[rid] == nil {
		return false
	}
	wr := h.w.Get(name)
	if wr == nil || wr.Silent {
		return false
	}
	return !JSONEqual(h.w.ClientState(name, rc.Ver), rc.State(rid))
}

// lostToUnsend follows the chain "rid was carried by an ignored stray event on
// rid2, which was carried by ..." to a resource with the hook note sub.unsend.
func (h *histRun) lostToUnsend(cid string, rc *RefClient, rid string) bool {
	for hops := 0; hops < 6; hops++ {
		sr := rc.LostInStray[rid]
		if sr == "" || sr == rid {
			return false
		}
		if h.hasNote("sub.unsend", cid, sr) {
			return true
		}
		rid = sr
	}
	return false
}

func (h *histRun) worldHasRef(holder, rid string) bool {
	name, _ := ridName(holder)
	for _, r := range h.w.HardRefs(name) {
		if r == rid {
			return true
		}
	}
	return false
}
