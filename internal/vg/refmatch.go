package vg

import "strings"

// refPatternValid is the reference validity rule for resource patterns: NATS
// subject wildcard syntax over non-empty tokens of printable non-space ASCII
// without '?'; '*' and '>' only as whole tokens, '>' only last.
func refPatternValid(p string) bool {
	if p == "" {
		return false
	}
	toks := strings.Split(p, ".")
	for i, t := range toks {
		if t == "" {
			return false
		}
		if t == ">" {
			if i != len(toks)-1 {
				return false
			}
			continue
		}
		if t == "*" {
			continue
		}
		for j := 0; j < len(t); j++ {
			c := t[j]
			if c < 33 || c > 126 || c == '?' || c == '*' || c == '>' {
				return false
			}
		}
	}
	return true
}

// refNameValid reports whether s is a valid resource name (no wildcards).
func refNameValid(s string) bool { return ValidSubject(s) }

// refPatternMatch is the reference matcher: token-wise, '*' matches exactly
// one token, a trailing '>' one or more tokens. Invalid patterns match nothing.
func refPatternMatch(p, name string) bool {
	if !refPatternValid(p) {
		return false
	}
	pt := strings.Split(p, ".")
	nt := strings.Split(name, ".")
	for i, t := range pt {
		if t == ">" {
			return len(nt) > i
		}
		if i >= len(nt) {
			return false
		}
		if t == "*" {
			continue
		}
		if t != nt[i] {
			return false
		}
	}
	return len(pt) == len(nt)
}
