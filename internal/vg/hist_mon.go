package vg

import (
	"bytes"
	"encoding/json"
	"fmt"
	"strings"
)

// parseServiceVal decodes a value as a service sends it.
func parseServiceVal(raw json.RawMessage) Val {
	var m map[string]json.RawMessage
	if json.Unmarshal(raw, &m) == nil && m != nil {
		if r, ok := m["rid"]; ok {
			var rid string
			json.Unmarshal(r, &rid)
			var soft bool
			if sv, ok := m["soft"]; ok {
				json.Unmarshal(sv, &soft)
			}
			if soft {
				return Soft(rid)
			}
			return Ref(rid)
		}
		if d, ok := m["data"]; ok {
			return Data(string(d))
		}
	}
	return Val{Kind: VPrim, JSON: string(raw)}
}

// sameEvent reports whether a delivered event frame is the given stream event.
func sameEvent(d DelivEv, ev StreamEv, ver int) bool {
	if d.Event != ev.Kind {
		return false
	}
	switch ev.Kind {
	case "change":
		var p, q struct {
			Values map[string]json.RawMessage `json:"values"`
		}
		if json.Unmarshal(d.Data, &p) != nil || json.Unmarshal([]byte(ev.Payload), &q) != nil {
			return false
		}
		return string(p.Values["_s"]) == string(q.Values["_s"]) && len(p.Values) == len(q.Values)
	case "add":
		var p struct {
			Idx   int         `json:"idx"`
			Value interface{} `json:"value"`
		}
		var q struct {
			Idx   int             `json:"idx"`
			Value json.RawMessage `json:"value"`
		}
		if json.Unmarshal(d.Data, &p) != nil || json.Unmarshal([]byte(ev.Payload), &q) != nil {
			return false
		}
		return p.Idx == q.Idx && JSONEqual(p.Value, parseServiceVal(q.Value).ClientValue(ver))
	case "remove":
		var p, q struct {
			Idx int `json:"idx"`
		}
		json.Unmarshal(d.Data, &p)
		json.Unmarshal([]byte(ev.Payload), &q)
		return p.Idx == q.Idx
	case "delete":
		return true
	default:
		var p, q struct {
			Seq *int `json:"seq"`
		}
		json.Unmarshal(d.Data, &p)
		json.Unmarshal([]byte(ev.Payload), &q)
		return p.Seq != nil && q.Seq != nil && *p.Seq == *q.Seq
	}
}

// checkC03 verifies per-resource event delivery. Inside one holding interval
// the delivered events must be a contiguous run of the resource's event
// stream (order, no duplicate, no gap); for an interval still open at the
// final quiescent point the run must be a suffix of the stream (complete
// tail) and every event left out before it must have been handed to the
// gateway before the client received the resource; a model state event at or
// below the snapshot's stamp must not be delivered. Histories with resets are
// exempt (derived events supersede stream events there).
func (h *histRun) checkC03() {
	if h.resets > 0 {
		return
	}
	now := h.g.Clock.Now()
	for _, c := range h.g.clientsSnapshot() {
		rc := h.rcs[c]
		if rc == nil {
			continue
		}
		for rid, ivs := range rc.Held {
			name, q := ridName(rid)
			if q != "" {
				continue
			}
			wr := h.w.Get(name)
			if wr == nil {
				continue
			}
			if rc.EverTentative[rid] {
				h.stat("c03_pairs_skipped_tentative", 1)
				continue
			}
			if h.hasNote("sub.unsend", c.CID, rid) || h.hasNote("populate.deleted", c.CID, rid) {
				h.stat("c03_pairs_skipped_known", 1)
				continue
			}
			// finding C: the client keeps the resource only through a resource
			// that was revived from its dead snapshot (whose references the
			// gateway does not follow any more)
			viaRevived := false
			for hrid, hres := range rc.Cache {
				if hrid == rid || !h.hasNote("populate.deleted", c.CID, hrid) {
					continue
				}
				for _, ref := range hres.refs() {
					if ref == rid {
						viaRevived = true
					}
				}
			}
			if viaRevived || h.heldViaStale(c, rc, rid) {
				h.stat("c03_pairs_skipped_known", 1)
				continue
			}
			var stream []StreamEv
			for _, ev := range wr.Stream {
				if ev.Kind != "reaccess" && ev.Matched {
					stream = append(stream, ev)
				}
			}
			delivered := rc.Delivered[rid]
			for _, iv := range ivs {
				if iv.IsErr {
					continue
				}
				to := iv.To
				open := to == 0
				if open {
					to = now + 1
				}
				var d []DelivEv
				for _, e := range delivered {
					if e.T > iv.From && e.T <= to && e.Event != "unsubscribe" {
						d = append(d, e)
					}
				}
				h.stat("c03_intervals", 1)
				h.stat("c03_events_checked", int64(len(d)))
				// model stamp rule
				if st, ok := iv.Stamp.(float64); ok && wr.Kind == RModel {
					for _, e := range d {
						if e.Event != "change" {
							continue
						}
						var p struct {
							Values map[string]json.RawMessage `json:"values"`
						}
						var n float64
						if json.Unmarshal(e.Data, &p) == nil && json.Unmarshal(p.Values["_s"], &n) == nil && n <= st {
							h.viol(Viol{Prop: "C03", Conn: c.Idx, T: e.T, RID: rid, Sig: "belowSnapshot",
								Msg: fmt.Sprintf("state event with stamp %v of %s delivered although the snapshot handed over already carries stamp %v", n, rid, st)})
						}
					}
				}
				hasDelete := len(d) > 0 && d[len(d)-1].Event == "delete"
				curDeleted := false
				if res := rc.Cache[rid]; res != nil && res.Deleted {
					curDeleted = true
				}
				if _, closed := h.closedAt[c.Idx]; closed && !h.finalClosed[c.Idx] {
					// the connection was torn down mid-history: only the run rule applies
					open = false
				}
				if open && !hasDelete && !curDeleted {
					// suffix rule
					a := len(stream) - len(d)
					ok := a >= 0
					for i := 0; ok && i < len(d); i++ {
						if !sameEvent(d[i], stream[a+i], rc.Ver) {
							ok = false
						}
					}
					if ok && a > 0 && stream[a-1].T1 > iv.From {
						h.viol(Viol{Prop: "C03", Conn: c.Idx, T: now, RID: rid, Sig: "missingEvent",
							Msg: fmt.Sprintf("event #%d (%s, handed to the gateway at t=%d) of %s was not delivered although the client holds the resource since t=%d", stream[a-1].Seq, stream[a-1].Kind, stream[a-1].T1, rid, iv.From)})
					} else if !ok {
						h.viol(Viol{Prop: "C03", Conn: c.Idx, T: now, RID: rid, Sig: "notASuffix",
							Msg: fmt.Sprintf("the %d events delivered for %s since t=%d are not the last %d events of its stream of %d (order, gap, duplicate or missing tail): delivered=%s", len(d), rid, iv.From, len(d), len(stream), delivSummary(d))})
					}
					continue
				}
				// closed interval (or terminated by delete): some contiguous run
				if len(d) == 0 {
					continue
				}
				found := false
				for a := 0; a+len(d) <= len(stream) && !found; a++ {
					ok := true
					for i := range d {
						if !sameEvent(d[i], stream[a+i], rc.Ver) {
							ok = false
							break
						}
					}
					found = ok
				}
				if !found {
					h.viol(Viol{Prop: "C03", Conn: c.Idx, T: d[len(d)-1].T, RID: rid, Sig: "notARun",
						Msg: fmt.Sprintf("the %d events delivered for %s between t=%d and t=%d are not a contiguous run of its stream: delivered=%s", len(d), rid, iv.From, to, delivSummary(d))})
				}
			}
		}
	}
}

func delivSummary(d []DelivEv) string {
	var sb strings.Builder
	for i, e := range d {
		if i > 12 {
			sb.WriteString(" ...")
			break
		}
		fmt.Fprintf(&sb, " %s%s", e.Event, trunc200(e.Data))
	}
	return sb.String()
}

// checkBoundary verifies messaging-boundary rules over the whole log.
func (h *histRun) checkBoundary() {
	active := map[string]bool{}
	cids := map[string]int{}
	for _, c := range h.g.clientsSnapshot() {
		if c.CID != "" {
			cids[c.CID] = c.Idx
		}
	}
	reqs := h.g.Bus.Reqs()
	byID := map[int]*BusReq{}
	for _, r := range reqs {
		byID[r.ID] = r
	}
	for _, e := range h.g.Bus.Log() {
		switch e.Kind {
		case "sub":
			active[e.Subject] = true
		case "unsub":
			delete(active, e.Subject)
		case "closed":
			active = map[string]bool{}
		case "req":
			r := byID[e.ReqID]
			if r == nil {
				continue
			}
			if r.Kind == "get" {
				h.stat("c09_get_requests_checked", 1)
				if !active["event."+r.Name] {
					h.viol(Viol{Prop: "C09", T: e.T, RID: r.Name, Sig: "getWithoutSubscription",
						Msg: fmt.Sprintf("get.%s requested at t=%d without a prior event subscription on event.%s", r.Name, e.T, r.Name)})
				}
			}
			if r.Kind == "access" || r.Kind == "call" || r.Kind == "auth" {
				h.stat("c10_requests_checked", 1)
				idx, known := cids[r.CID]
				if !known {
					h.viol(Viol{Prop: "C10", T: e.T, RID: r.Subject, Sig: "unknownCID",
						Msg: fmt.Sprintf("request %s carries cid %q which is no connection's id", r.Subject, r.CID)})
					continue
				}
				// {cid} expansion: any known cid inside the subject must be the requester's
				for cid := range cids {
					if cid != r.CID && strings.Contains(r.Subject, cid) {
						h.viol(Viol{Prop: "C10", Conn: idx, T: e.T, RID: r.Subject, Sig: "foreignCIDInSubject",
							Msg: fmt.Sprintf("request %s made for connection %s names another connection's id", r.Subject, r.CID)})
					}
				}
				if strings.Contains(r.Subject, "{cid}") {
					h.viol(Viol{Prop: "C10", Conn: idx, T: e.T, RID: r.Subject, Sig: "cidNotExpanded", Msg: "subject " + r.Subject + " still contains the {cid} tag"})
				}
				h.checkToken(r, idx)
			}
			if r.Kind == "get" && strings.Contains(r.Subject, "{cid}") {
				h.viol(Viol{Prop: "C10", T: e.T, RID: r.Subject, Sig: "cidNotExpanded", Msg: "subject " + r.Subject + " still contains the {cid} tag"})
			}
			if strings.Contains(r.Query, "{cid}") {
				h.viol(Viol{Prop: "C10", T: e.T, RID: r.Subject, Sig: "cidNotExpanded", Msg: fmt.Sprintf("request %s carries the query %q with the {cid} tag unexpanded", r.Subject, r.Query)})
			}
		}
	}
	// no frame may contain any connection id
	for _, c := range h.g.clientsSnapshot() {
		for _, f := range c.Frames() {
			if f.Fence {
				continue
			}
			h.stat("c10_frames_scanned", 1)
			for cid, idx := range cids {
				if bytes.Contains(f.Raw, []byte(cid)) {
					h.viol(Viol{Prop: "C10", Conn: c.Idx, T: f.T, Sig: "cidInFrame",
						Msg: fmt.Sprintf("frame to connection %d contains the id of connection %d: %s", c.Idx, idx, trunc200(f.Raw))})
				}
			}
		}
	}
}

type tokenSet struct {
	T     int64
	Token string
	TID   string
}

type tokenReset struct {
	T       int64
	TIDs    []string
	Subject string
}

// checkTokenResets: a token reset reaches exactly the connections whose
// current token id is listed. A connection is judged only if its token id did
// not change between the last quiescent point before the reset and the first
// one after it.
func (h *histRun) checkTokenResets() {
	reqs := h.g.Bus.Reqs()
	for _, tr := range h.tokenResets {
		var q0, q1 int64
		for _, q := range h.qpoints {
			if q < tr.T {
				q0 = q
			}
			if q > tr.T && q1 == 0 {
				q1 = q
			}
		}
		if q1 == 0 {
			continue
		}
		listed := map[string]bool{}
		for _, t := range tr.TIDs {
			listed[t] = true
		}
		for _, c := range h.g.clientsSnapshot() {
			if c.CID == "" {
				continue
			}
			if ct, closed := h.closedAt[c.Idx]; closed && ct < q1 {
				continue
			}
			tid := ""
			stable := true
			for _, s := range h.tokens[c.Idx] {
				if s.T <= q0 {
					tid = s.TID
				} else if s.T < q1 {
					stable = false
				}
			}
			if !stable {
				continue
			}
			n := 0
			for _, r := range reqs {
				if r.Subject == tr.Subject && r.CID == c.CID {
					n++
				}
			}
			h.stat("c10_tokenreset_pairs", 1)
			want := 0
			if tid != "" && listed[tid] {
				want = 1
			}
			if n != want {
				h.viol(Viol{Prop: "C10", Conn: c.Idx, T: tr.T, RID: tr.Subject, Sig: "tokenResetFanout",
					Msg: fmt.Sprintf("token reset for tids %v sent %d auth requests for connection %d whose token id is %q (want %d)", tr.TIDs, n, c.Idx, tid, want)})
			}
		}
	}
}

// checkToken verifies that a request carries a token admissible for its
// connection: the newest token set before the last point preceding the request
// at which the gateway was idle (service requests may be outstanding then, but
// every token event published before has been processed), or any token set on
// that connection after that point.
func (h *histRun) checkToken(r *BusReq, idx int) {
	sets := h.tokens[idx]
	var lastQ int64
	for _, q := range h.ppoints {
		if q < r.T {
			lastQ = q
		}
	}
	adm := map[string]bool{}
	base := "null"
	for _, s := range sets {
		if s.T <= lastQ {
			base = s.Token
		} else if s.T < r.T {
			adm[s.Token] = true
		}
	}
	adm[base] = true
	got := "null"
	if len(r.Token) > 0 {
		got = string(r.Token)
	}
	h.stat("c10_tokens_checked", 1)
	if adm[canonJSON(got)] {
		return
	}
	// another connection's token?
	for o, os := range h.tokens {
		if o == idx {
			continue
		}
		for _, s := range os {
			if s.Token == canonJSON(got) {
				h.viol(Viol{Prop: "C10", Conn: idx, T: r.T, RID: r.Subject, Sig: "foreignToken",
					Msg: fmt.Sprintf("request %s for connection %d carries token %s which was set on connection %d", r.Subject, idx, got, o)})
				return
			}
		}
	}
	h.viol(Viol{Prop: "C05", Conn: idx, T: r.T, RID: r.Subject, Sig: "staleToken",
		Msg: fmt.Sprintf("request %s for connection %d carries token %s; admissible: %v", r.Subject, idx, got, keys(adm))})
}

func keys(m map[string]bool) []string {
	var out []string
	for k := range m {
		out = append(out, k)
	}
	return out
}

func canonJSON(s string) string {
	var v interface{}
	if json.Unmarshal([]byte(s), &v) != nil {
		return s
	}
	b, _ := json.Marshal(v)
	return string(b)
}

// checkLate asserts that no request was issued on behalf of a connection
// after the quiescent point that absorbed its disconnect.
func (h *histRun) checkLate() {
	for _, c := range h.g.clientsSnapshot() {
		ct, closed := h.closedAt[c.Idx]
		if !closed || c.CID == "" {
			continue
		}
		var q int64
		for _, p := range h.qpoints {
			if p > ct {
				q = p
				break
			}
		}
		if q == 0 {
			continue
		}
		h.stat("c11_disconnects_checked", 1)
		for _, r := range h.g.Bus.Reqs() {
			if r.T > q && r.CID == c.CID {
				h.viol(Viol{Prop: "C11", Conn: c.Idx, T: r.T, RID: r.Subject, Sig: "requestAfterDisconnect",
					Msg: fmt.Sprintf("request %s issued at t=%d for connection %d which disconnected at t=%d (absorbed by the quiescent point at t=%d)", r.Subject, r.T, c.Idx, ct, q)})
			}
		}
	}
}

// checkAccessCurrency: every successful subscribe/get/new/resource response
// and every forwarded call must rest on an access grant that is not older
// than an invalidating trigger (reaccess event on the resource, token event
// on a connection that already had a token) which a quiescent point absorbed
// before the client request was sent.
func (h *histRun) checkAccessCurrency() {
	reqs := h.g.Bus.Reqs()
	for _, c := range h.g.clientsSnapshot() {
		rc := h.rcs[c]
		if rc == nil || c.CID == "" {
			continue
		}
		type grant struct {
			ans, done, reqT int64
			get             bool
			call            string
		}
		grants := map[string][]grant{}
		for _, r := range reqs {
			if r.Kind != "access" || r.CID != c.CID || !r.Done || r.IsHTTP {
				continue
			}
			g := grant{ans: r.AnsT, done: r.DoneT, reqT: r.T}
			if r.Outcome == "reply" {
				var p struct {
					Result *struct {
						Get  bool   `json:"get"`
						Call string `json:"call"`
					} `json:"result"`
				}
				if json.Unmarshal(r.Reply, &p) == nil && p.Result != nil {
					g.get, g.call = p.Result.Get, p.Result.Call
				}
			}
			grants[r.Name] = append(grants[r.Name], g)
		}
		// invalidating triggers
		triggers := func(name string) []int64 {
			var out []int64
			if wr := h.w.Get(h.worldName(name, c.CID)); wr != nil {
				for _, ev := range wr.Stream {
					if ev.Kind == "reaccess" && ev.Matched {
						out = append(out, ev.T2)
					}
				}
			}
			for i, ts := range h.tokens[c.Idx] {
				if i > 0 {
					out = append(out, ts.T)
				}
			}
			return out
		}
		stale := func(name string, useT, sentT int64, wantCall string) (string, bool) {
			// Any access answer received before the use may be the one used
			// (concurrent requests each make their own check): the use is
			// fine if one of them grants and is not older than an
			// invalidating trigger absorbed before the request was sent.
			gs := grants[name]
			any, granting, valid, raced := false, false, false, false
			for i := range gs {
				if gs[i].ans >= useT {
					continue // chosen after the use (ans is stamped before the callback runs)
				}
				any = true
				ok := gs[i].get
				if wantCall != "" {
					ok = refCanCall(gs[i].call, wantCall)
				}
				if !ok {
					continue
				}
				granting = true
				fresh := true
				for _, tt := range triggers(name) {
					if tt <= gs[i].ans {
						continue
					}
					for _, q := range h.qpoints {
						if q > tt && q < sentT {
							fresh = false
						}
					}
					// the trigger followed the answer with no quiescent point in
					// between: the answer may have been processed after the trigger
					sep := false
					for _, q := range h.qpoints {
						if q > gs[i].ans && q < tt {
							sep = true
						}
					}
					if !sep {
						raced = true
					}
				}
				// an answer to a request that was sent before a token change
				// (on a connection that had a token) speaks for the old token,
				// whenever it arrives: not valid once the gateway has absorbed
				// the token event (idle point between the event and the use)
				for ti, ts := range h.tokens[c.Idx] {
					if ti == 0 || ts.T <= gs[i].reqT {
						continue
					}
					for _, pp := range h.ppoints {
						if pp > ts.T && pp < useT {
							fresh = false
						}
					}
				}
				if fresh {
					valid = true
				}
			}
			switch {
			case valid:
				return "", false
			case !any:
				return "noGrant", true
			case granting && raced:
				return "staleGrant.answerRacedTrigger", true
			case granting:
				return "staleGrant", true
			case wantCall != "":
				return "callNotGranted", true
			}
			return "usedDenial", true
		}
		sentByID := map[uint64]SentReq{}
		for _, s := range c.Sent() {
			sentByID[s.ID] = s
		}
		// data deliveries
		for id, f := range rc.RespFrame {
			s := sentByID[id]
			if s.Fence || f.Error != nil {
				continue
			}
			action, rid, _ := methodParts(s.Method)
			root := ""
			switch action {
			case "subscribe", "get":
				root = rid
			case "new", "call", "auth":
				var res struct {
					RID    *string                    `json:"rid"`
					Errors map[string]json.RawMessage `json:"errors"`
				}
				if json.Unmarshal(f.Result, &res) == nil && res.RID != nil && res.Errors[*res.RID] == nil {
					if action == "new" || rc.Ver >= Ver120 {
						root = *res.RID
					}
				}
			}
			if root == "" {
				continue
			}
			name, _ := ridName(strings.Replace(root, "{cid}", c.CID, -1))
			h.stat("c04_deliveries_checked", 1)
			if sig, bad := stale(name, f.T, s.T, ""); bad {
				if h.hasNote("populate.deleted", c.CID, root) {
					// finding C: served from a deleted subscription that was
					// revived; it is outside the cache and no trigger reaches it
					sig += ".populateDeleted"
				}
				h.viol(Viol{Prop: "C04", Conn: c.Idx, T: f.T, RID: root, Sig: sig,
					Msg: fmt.Sprintf("request %s (sent t=%d) was answered with resource %s at t=%d without a valid access grant for it (%s)", s.Method, s.T, root, f.T, sig)})
			}
		}
		// forwarded calls
		for _, r := range reqs {
			if r.Kind != "call" || r.CID != c.CID || r.IsHTTP {
				continue
			}
			var sent *SentReq
			for _, s := range c.Sent() {
				s := s
				action, rid, m := methodParts(s.Method)
				if action == "new" {
					m = "new"
				}
				if (action != "call" && action != "new") || m != r.Method || s.T >= r.T {
					continue
				}
				n, _ := ridName(strings.Replace(rid, "{cid}", c.CID, -1))
				if n == r.Name && (sent == nil || s.T > sent.T) {
					sent = &s
				}
			}
			if sent == nil {
				continue
			}
			h.stat("c05_calls_checked", 1)
			if sig, bad := stale(r.Name, r.T, sent.T, r.Method); bad {
				for _, sn := range h.noteRIDs("populate.deleted", c.CID) {
					if n, _ := ridName(sn); strings.Replace(n, "{cid}", c.CID, -1) == r.Name {
						sig += ".populateDeleted"
						break
					}
				}
				h.viol(Viol{Prop: "C05", Conn: c.Idx, T: r.T, RID: r.Subject, Sig: sig,
					Msg: fmt.Sprintf("call %s was forwarded at t=%d (client request sent t=%d) without a valid access grant (%s)", r.Subject, r.T, sent.T, sig)})
			}
		}
	}
}
