#!/bin/bash
# usage: tools_sweep.sh <tier> <seed>...   — runs every check at every seed, prints one line per run
tier=$1; shift
cd /verif
for seed in "$@"; do
  for id in C01 C02 C03 C04 C05 C06 C07 C08 C09 C10 C11 C12 C13 C14 C15 C16 C17 C18 C19 C20; do
    out=$(VERIF_SEED=$seed ./bin/check $id --tier $tier 2>&1); rc=$?
    last=$(echo "$out" | grep "$tier seed" | tail -1 | cut -c1-160)
    echo "seed=$seed $id rc=$rc $last"
    if [ $rc -ne 0 ]; then echo "$out" | grep "VIOLATION\|INCONCLUSIVE" | head -4 | cut -c1-300; fi
  done
done
